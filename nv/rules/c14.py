"""C14 - feature scaling is invertible; the un-scaled linear model is the same predictor (DESIGN 3, C14)."""
import sympy as sp

from ..facts import AnalysisBroken, walk
from ..pp import pp, skip
from ..util import args, assignment, callee, is_call, literal_value, ref_decl, find_var, obj
from .. import kalg
from .c08 import switch_table

META = {
    "level": "other",
    "technique": "symbolic execution of the per-mode scaling kernels (sympy) + table agreement + sign analysis of sqrt/denominators",
    "explanation": "Decides on the extracted kernels: for each scaling mode the up-scaling expression composed with the scaling "
                   "expression is the identity given that the multiplier/divisor statistics are reciprocal, and they are assigned "
                   "reciprocal values in every branch that assigns one of them; the affine (w, b) handed to the linear model equals the "
                   "scaling expression; missing values are zeroed after the arithmetic in every scaling mode; the categorical mask "
                   "branch resets all eight statistics to the identity; nano::upscale implements W' = W*fw/tw, b' = (W*fb + b - tb)/tw "
                   "(1x1 instance); every sqrt argument and denominator in the statistics finaliser has a provable sign.",
    "not_decided": "floating-point rounding magnitudes; the advertised range/mean/deviation of scaled columns for arbitrary data",
    "assumptions": ["matrix formulas are checked in their 1x1 instance (necessary condition)"],
}

TUS = ["src/dataset/stats.cpp"]
FILE = "src/dataset/stats.cpp"


def case_kernel(f, nodes, atoms):
    """final symbolic value of the per-sample array after the case's loop body; None if the case has no arithmetic"""
    loops = [x for n in nodes for x in walk(n) if x["k"] == "for"]
    if not loops:
        return None, False
    body = loops[0]["c"][loops[0]["r"].index("body")]
    ex = kalg.SymExec(f, atoms=atoms, scalar=True)
    stmts = body.get("c", ()) if body["k"] == "block" else [body]
    ex.run(stmts)
    arr = [v for v in walk(body) if v["k"] == "var"]
    if not arr:
        raise kalg.OutOfFragment("no per-sample view in the loop body")
    d = arr[0]["d"]
    # nan2zero must follow the last write of the view
    last_write = None
    nz = None
    for i, s in enumerate(stmts):
        a = assignment(skip(s))
        if a and ref_decl(a[0]) == d:
            last_write = i
        if skip(s)["k"] == "call" and callee(skip(s)).endswith("nan2zero") and ref_decl(args(skip(s))[0]) == d:
            nz = i
    has_nz = nz is not None and (last_write is None or nz > last_write)
    return ex.decl.get(d), has_nz


def rule_modes(F, R):
    fs = F.in_file(FILE)
    def pick(name, t):
        out = [f for f in fs if f.qn == "nano::scalar_stats_t::" + name and t in f.params[1]["t"]]
        if not out:
            raise AnalysisBroken("scalar_stats_t::%s(%s) not found" % (name, t))
        return out[0]
    sc, up = pick("scale", ", 2>"), pick("upscale", ", 2>")
    x = kalg.sym("x")
    atoms = {"values.array(sample)": x}
    tables = {}
    for f, tag in ((sc, "scale"), (up, "upscale")):
        sws = [n for n in f.nodes() if n["k"] == "switch"]
        if len(sws) != 1:
            raise AnalysisBroken("%s: expected one switch over the scaling mode" % tag)
        tables[tag] = (f, switch_table(f, sws[0]))
    modes = sorted(set(tables["scale"][1]) | set(tables["upscale"][1]))
    recip = {kalg.sym("m_mul_range"): 1 / kalg.sym("m_div_range"), kalg.sym("m_mul_stdev"): 1 / kalg.sym("m_div_stdev")}
    kernels = {}
    n = 0
    for mode in modes:
        if mode == "default":
            continue
        short = mode.split("::")[-1]
        if mode not in tables["scale"][1] or mode not in tables["upscale"][1]:
            R.bad("R-C14-1", "mode " + short, sc.loc(), "scaling mode handled by only one of scale()/upscale()")
            continue
        try:
            ks, nz = case_kernel(sc, tables["scale"][1][mode], atoms)
            ku, _ = case_kernel(up, tables["upscale"][1][mode], atoms)
        except kalg.OutOfFragment as e:
            R.incomplete("R-C14-1", "mode " + short, sc.loc(), "kernel outside the fragment: %s" % e)
            continue
        n += 1
        ks_e = ks if ks is not None else x
        ku_e = ku if ku is not None else x
        kernels[short] = ks_e
        comp = ku_e.subs(x, ks_e).subs(recip)
        z, wit = kalg.is_zero(sp.simplify(comp - x), R.seed)
        R.check(bool(z), "R-C14-1", "mode " + short, sc.loc(tables["scale"][1][mode][0]),
                "upscale(scale(x)) == x with scale: %s, upscale: %s" % (ks_e, ku_e),
                "upscale(scale(x)) = %s is not x (scale: %s, upscale: %s) %s" % (sp.simplify(comp), ks_e, ku_e, wit))
        # R-C14-3 missing values zeroed after the arithmetic
        R.check(nz, "R-C14-3", "mode " + short, sc.loc(tables["scale"][1][mode][0]), "nan2zero is applied after the last write of the sample view",
                "missing values (NaN) are not zeroed after scaling in mode " + short)
    R.floor("R-C14-1", n, 4, "scaling modes")
    # 4-d overloads delegate with the same mode
    for name in ("scale", "upscale"):
        f4 = [f for f in fs if f.qn == "nano::scalar_stats_t::" + name and ", 4>" in f.params[1]["t"]]
        for f in f4[:1]:
            c = [c for c in f.calls(lambda q: callee(q) == "nano::scalar_stats_t::" + name)]
            ok = len(c) == 1 and ref_decl(args(c[0])[0]) == f.params[0]["d"] and pp(args(c[0])[1]).startswith(f.params[1]["n"] + ".reshape(")
            R.check(ok, "R-C14-1", name + " 4d delegates", f.loc(), "4-d overload reshapes and delegates with the same mode", "4-d overload does not forward (mode, values)")
    # make_scaling: (w, b) per mode equals the scale kernel
    ms = [f for f in fs if f.name == "make_scaling"]
    if not ms:
        raise AnalysisBroken("make_scaling not found")
    f = ms[0]
    sws = [q for q in f.nodes() if q["k"] == "switch"]
    tab = switch_table(f, sws[0]) if len(sws) == 1 else {}
    nm = 0
    for mode, nodes in sorted(tab.items()):
        if mode == "default":
            continue
        short = mode.split("::")[-1]
        ex = kalg.SymExec(f, scalar=True)
        try:
            ex.run([q for q in nodes if q["k"] not in ("break",)])
        except kalg.OutOfFragment as e:
            R.incomplete("R-C14-1", "make_scaling " + short, f.loc(), str(e))
            continue
        w, b = ex.state.get("w"), ex.state.get("b")
        if w is None or b is None or short not in kernels:
            R.bad("R-C14-1", "make_scaling " + short, f.loc(nodes[0]), "mode does not assign both w and b")
            continue
        ren = {s: kalg.sym(s.name.replace("stats_", "")) for s in (w.free_symbols | b.free_symbols)}
        aff = (w * x + b).subs(ren)
        z, wit = kalg.is_zero(sp.simplify(aff - kernels[short]), R.seed)
        nm += 1
        R.check(bool(z), "R-C14-1", "make_scaling " + short, f.loc(nodes[0]), "w*x + b == scale(x) = %s" % kernels[short],
                "affine form w*x+b = %s differs from scale(x) = %s %s" % (sp.simplify(aff), kernels[short], wit))
    R.floor("R-C14-1/make_scaling", nm, 3, "affine modes")
    # the default initialisation is the identity
    inits = {v["n"]: pp(v["c"][0]) for v in f.nodes() if v["k"] == "var" and v["n"] in ("w", "b") and v.get("c")}
    R.check("1" in inits.get("w", "").split(", ")[-1] and "0" in inits.get("b", "").split(", ")[-1], "R-C14-1", "make_scaling identity", f.loc(),
            "unscaled modes use w = 1, b = 0", "default (w, b) is not the identity: %s" % inits)


def blocks_of(f):
    for n in f.nodes():
        if n["k"] == "block":
            yield n


def rule_done(F, R):
    fs = [f for f in F.in_file(FILE) if f.name == "done" and "scalar_stats_t" in f.params[0]["t"]]
    if not fs:
        raise AnalysisBroken("done(scalar_stats_t&) not found")
    f = fs[0]
    npairs = 0
    eps = kalg.sym("epsilon", positive=True)
    for blk in blocks_of(f):
        direct = [skip(s) for s in blk.get("c", ())]
        assigns = {}
        for s in direct:
            a = assignment(s)
            if a:
                assigns[kalg.designator(a[0])] = (a, s)
        for kind in ("range", "stdev"):
            dk = [k for k in assigns if ".m_div_%s" % kind in k]
            mk = [k for k in assigns if ".m_mul_%s" % kind in k]
            if not dk and not mk:
                continue
            npairs += 1
            inst = "done block@%d div/mul_%s" % (blk["l"], kind)
            if len(dk) != 1 or len(mk) != 1:
                R.bad("R-C14-2", inst, f.loc(blk), "only one of m_div_%s / m_mul_%s is assigned in this branch: the pair is no longer reciprocal" % (kind, kind))
                continue
            try:
                ex = kalg.SymExec(f, scalar=True, positive=("epsilon",))
                ex.decl = {}
                ex.run([s_ for s_ in direct if assignment(s_) or s_["k"] == "declstmt"])
                dv, mv = ex.state[dk[0]], ex.state[mk[0]]
            except (kalg.OutOfFragment, KeyError) as e:
                R.incomplete("R-C14-2", inst, f.loc(blk), "outside the fragment: %s" % e)
                continue
            z, wit = kalg.is_zero(sp.simplify(dv * mv - 1), R.seed)
            R.check(bool(z), "R-C14-2", inst, f.loc(assigns[dk[0]][1]), "divisor * multiplier == 1",
                    "m_div_%s * m_mul_%s = %s, not 1: upscale no longer inverts scale %s" % (kind, kind, sp.simplify(dv * mv), wit))
    R.floor("R-C14-2", npairs, 6, "div/mul assignment pairs")

    # R-C14-7: a column without any finite value must not keep the +max / lowest sentinels the constructor stores in (min, max)
    ctor = [g for g in F.in_file(FILE) if g.cls == "nano::scalar_stats_t" and g.raw.get("ctor") == "other"]
    sentinels = set()
    for g in ctor:
        for i in g.inits:
            if i.get("c") and any(is_call(y, "std::numeric_limits::max") or is_call(y, "std::numeric_limits::lowest") for y in walk(i)):
                sentinels.add(i.get("n"))
    # the finaliser is followed per sample count: N = 0 (nothing seen: the sentinels must go), N = 1 (the single value must stay: min = max =
    # mean = it) - the assignments executed on the path that N selects, conditions on N evaluated concretely
    loops = [x for x in f.nodes() if x["k"] == "for"]
    body = loops[0]["c"][loops[0]["r"].index("body")] if loops else None

    def cval(n_, env):
        n_ = skip(n_)
        while n_["k"] in ("cast", "paren") and n_.get("c"):
            n_ = skip(n_["c"][0])
        if n_["k"] == "int":
            return n_["v"]
        if n_["k"] == "ref" and n_.get("d") in env:
            return env[n_["d"]]
        if n_["k"] == "un" and n_.get("op") == "!":
            v = cval(n_["c"][0], env)
            return None if v is None else (not v)
        if n_["k"] == "bin" and n_["op"] in ("<", "<=", "==", "!=", "&&", "||"):
            u, v = cval(n_["c"][0], env), cval(n_["c"][1], env)
            if u is None or v is None:
                return None
            return {"<": u < v, "<=": u <= v, "==": u == v, "!=": u != v, "&&": bool(u) and bool(v), "||": bool(u) or bool(v)}[n_["op"]]
        return None

    def path(st, env, out):
        if st is None:
            return True
        k = st["k"]
        if k == "block":
            return all(path(c_, env, out) for c_ in st.get("c", ()))
        if k == "if":
            r = st["r"]
            if "init" in r and st["c"][r.index("init")] is not None:
                for v in walk(st["c"][r.index("init")]):
                    if v["k"] == "var" and v.get("c") and "m_samples" in pp(v["c"][0]):
                        env[v["d"]] = env["N"]
            cnd = st["c"][r.index("cond")]
            if "enable_scaling" in pp(cnd):
                return True         # the categorical mask (R-C14-4)
            v = cval(cnd, env)
            if v is None:
                return False
            br = st["c"][r.index("then")] if v else (st["c"][r.index("else")] if "else" in r else None)
            return path(br, env, out)
        if k == "declstmt":
            for v in st.get("c", ()):
                if v is not None and v["k"] == "var" and v.get("c") and "m_samples" in pp(v["c"][0]):
                    env[v["d"]] = env["N"]
            return True
        a_ = assignment(st)
        if a_:
            for y in walk(a_[0]):
                if y["k"] == "mem" and y.get("fd"):
                    out.setdefault(y["n"], []).append((a_[2], a_[1]))
                    break
        return True
    if sentinels and body is not None:
        for N, label in ((0, "all-missing column"), (1, "single-sample column")):
            out = {}
            if not path(body, {"N": N}, out):
                R.incomplete("R-C14-7", label, f.loc(), "cannot follow the finaliser for N = %d" % N)
                continue
            if N == 0:
                missing = sorted(x for x in sentinels if not (out.get(x) and out[x][-1][0] == "=" and literal_value(out[x][-1][1]) == 0))
                R.check(not missing, "R-C14-7", label, f.loc(), "for a column without finite values the sentinel-initialised statistics %s are reset to 0" % sorted(sentinels),
                        "a column without finite values keeps the constructor's sentinel in %s (min/max = +-1.8e308): minmax scaling of any later finite value "
                        "absorbs it and up-scaling returns 0 / inf" % missing)
            else:
                lost = sorted(x for x in ("m_min", "m_max", "m_mean") if out.get(x))
                R.check(not lost, "R-C14-7", label, f.loc(), "a column with one finite value keeps it as its minimum, maximum and mean",
                        "for a column with exactly one finite value v the finaliser overwrites %s (`%s`): update() had stored min = max = sum = v, now the statistics describe "
                        "another column - mean / minmax / standard scaling leave the value at v instead of 0 (the advertised mean / range)" % (
                            lost, "; ".join("%s %s %s" % (x, out[x][-1][0], pp(out[x][-1][1])[:20]) for x in lost)))

    # R-C14-4: the categorical mask branch resets all eight statistics to the identity
    want = {"m_min": 0, "m_max": 0, "m_mean": 0, "m_stdev": 0, "m_div_range": 1, "m_div_stdev": 1, "m_mul_range": 1, "m_mul_stdev": 1}
    found = False
    for n in f.nodes():
        if n["k"] == "if" and "enable_scaling" in pp(n["c"][n["r"].index("cond")]):
            cond = pp(n["c"][n["r"].index("cond")])
            then = n["c"][n["r"].index("then")]
            got = {}
            for s in then.get("c", ()):
                a = assignment(skip(s))
                if a:
                    l = skip(a[0])
                    for y in walk(l):
                        if y["k"] == "mem" and y.get("fd"):
                            got[y["n"]] = literal_value(a[1])
                            break
            found = True
            ok = got == want and "== 0" in cond
            R.check(ok, "R-C14-4", "categorical mask reset", f.loc(n), "masked (categorical) columns get offset 0 and factors 1 for all eight statistics",
                    "masked columns are reset to %s under `%s` (expected %s)" % (got, cond, want))
    if not found:
        R.bad("R-C14-4", "categorical mask reset", f.loc(), "the branch disabling scaling for masked columns vanished")
    mf = [g for g in F.in_file(FILE) if g.qn == "nano::scalar_stats_t::make_flatten_stats"]
    for g in mf[:1]:
        _flatten_mask(F, R, g)

    # R-C14-6: sqrt arguments and denominators have a provable sign under the enclosing guards
    nsq = 0
    for n in f.nodes():
        site = None
        if n["k"] == "call" and callee(n) in ("std::sqrt", "sqrt"):
            site, arg, what = n, args(n)[0], "sqrt argument"
        elif n["k"] == "bin" and n["op"] == "/":
            site, arg, what = n, n["c"][1], "denominator"
        elif assignment(n) and assignment(n)[2] == "/=":
            site, arg, what = n, assignment(n)[1], "denominator"
        if site is None:
            continue
        nsq += 1
        # guards: enclosing if conditions of the form X > c (then-branch)
        subs_guard = {}
        pos = ["epsilon"]
        for anc in f.ancestors(site):
            if anc["k"] == "if":
                then = anc["c"][anc["r"].index("then")]
                if any(y is site for y in walk(then)):
                    for y in walk(anc["c"][anc["r"].index("cond")]):
                        # `x > lit` (stored canonically as `lit < x`)
                        if y["k"] == "bin" and y["op"] in (">", ">=", "<", "<="):
                            lo, hi = (y["c"][1], y["c"][0]) if y["op"] in (">", ">=") else (y["c"][0], y["c"][1])
                            if literal_value(lo) is None:
                                continue
                            gd = ref_decl(hi)
                            if gd is not None:
                                strict = y["op"] in (">", "<")
                                psym = sp.Symbol("guard_%s" % pp(hi), positive=True) if strict else sp.Symbol("guard_%s" % pp(hi), nonnegative=True)
                                subs_guard[gd] = literal_value(lo) + psym
        try:
            cv = kalg.Conv(f, scalar=True, positive=tuple(pos), subst=subs_guard)
            e = cv.conv(arg)
        except kalg.OutOfFragment as ex_:
            R.incomplete("R-C14-6", "%s@%s" % (what, f.loc(site)), f.loc(site), str(ex_))
            continue
        e = sp.simplify(e) if what == "denominator" else e
        inst = "%s@%s" % (what, f.loc(site))
        if what == "sqrt argument":
            ok = kalg.sign_nonneg(e)
            R.check(ok, "R-C14-6", inst, f.loc(site), "argument of sqrt is provably non-negative: %s" % e,
                    "sqrt of `%s`: a difference of rounded quantities with no provable sign (a constant column gives sqrt(-tiny) = NaN, and "
                    "max(NaN, eps) stays NaN, so scaling yields NaN)" % pp(arg))
        else:
            ok = kalg.sign_nonneg(e) and e != 0 and not (e.is_number and e == 0) and (e.is_positive or kalg.sign_nonneg(e - sp.Symbol("tiny", positive=True)) or _strictly_pos(e))
            R.check(ok, "R-C14-6", inst, f.loc(site), "denominator is provably positive: %s" % e, "denominator `%s` may be zero or negative" % pp(arg))
    R.floor("R-C14-6", nsq, 4, "sqrt / division sites in the statistics finaliser")


def _strictly_pos(e):
    e = sp.sympify(e)
    if e.is_positive:
        return True
    if isinstance(e, sp.Max):
        return any(_strictly_pos(a) for a in e.args)
    if e.is_Add:
        return all(kalg.sign_nonneg(a) for a in e.args) and any(_strictly_pos(a) for a in e.args)
    if e.is_Mul:
        return all(_strictly_pos(a) for a in e.args)
    if e.is_Pow and e.args[1].is_number and e.args[1] < 0:
        return _strictly_pos(e.args[0])
    return False


def rule_upscale(F, R):
    fs = [f for f in F.in_file(FILE) if f.qn == "nano::upscale"]
    if not fs:
        raise AnalysisBroken("nano::upscale not found")
    f = fs[0]
    ex = kalg.SymExec(f, scalar=True)
    try:
        ex.run([s for s in f.body.get("c", ())])
    except kalg.OutOfFragment as e:
        R.incomplete("R-C14-5", "nano::upscale", f.loc(), str(e))
        return
    W, b = kalg.sym("weights"), kalg.sym("bias")
    fw, fb, tw, tb = (kalg.sym(n) for n in ("flatten_w", "flatten_b", "targets_w", "targets_b"))
    gotW, gotb = ex.state.get("weights"), ex.state.get("bias")
    if gotW is None or gotb is None:
        R.bad("R-C14-5", "nano::upscale", f.loc(), "weights and bias are not both updated")
        return
    z1, w1 = kalg.is_zero(sp.simplify(gotW - W * fw / tw), R.seed)
    z2, w2 = kalg.is_zero(sp.simplify(gotb - (W * fb + b - tb) / tw), R.seed)
    R.check(bool(z1), "R-C14-5", "upscale weights", f.loc(), "W' = W * fw / tw", "W' = %s, expected W*fw/tw %s" % (sp.simplify(gotW), w1))
    R.check(bool(z2), "R-C14-5", "upscale bias", f.loc(), "b' = (W*fb + b - tb) / tw (computed from the un-modified W)",
            "b' = %s, expected (W*fb + b - tb)/tw %s" % (sp.simplify(gotb), w2))
    # the pairs come from make_scaling of the matching statistics and mode
    binds = {}
    for v in f.nodes():
        if v["k"] == "var" and v.get("bindings") and v.get("c"):
            binds[tuple(bd["n"] for bd in v["bindings"])] = pp(v["c"][0])
    ok = binds.get(("flatten_w", "flatten_b")) == "make_scaling(flatten_stats, flatten_scaling)" and \
        binds.get(("targets_w", "targets_b")) == "make_scaling(targets_stats, targets_scaling)"
    R.check(ok, "R-C14-5", "upscale sources", f.loc(), "(w, b) pairs come from make_scaling of the matching statistics and mode",
            "scaling pairs are built from mismatched statistics/modes: %s" % binds)


def _conjuncts(n):
    n = skip(n)
    while n["k"] in ("paren",) and n.get("c"):
        n = skip(n["c"][0])
    if n["k"] == "bin" and n["op"] == "&&":
        return _conjuncts(n["c"][0]) + _conjuncts(n["c"][1])
    return [n]


def _peel(n):
    n = skip(n)
    while n is not None and n["k"] in ("cast", "paren") and n.get("c"):
        n = skip(n["c"][0])
    return n


def _shape_test(n):
    """`<container>.size() {<,<=,!=,==} <integer literal>` (either orientation): a test of the number of columns, not of their values"""
    if n["k"] != "bin" or n["op"] not in ("<", "<=", "!=", "=="):
        return False
    a, b = _peel(n["c"][0]), _peel(n["c"][1])
    for u, v in ((a, b), (b, a)):
        if u["k"] == "int" and v["k"] == "call" and callee(v).split("::")[-1].split("<")[0] in ("size", "rows", "cols") and len(args(v)) == 0:
            return True
    return False


def rule_unconditional(F, R):
    """R-C14-8: scalar_stats_t::scale / upscale apply the mode's kernel to every column unconditionally; the affine form handed to
    nano::upscale therefore has to be produced unconditionally as well - the only admissible guards in make_scaling / nano::upscale are
    the mode switch and tests of the number of columns (an empty statistics object has nothing to scale)"""
    fs = [f for f in F.in_file(FILE) if f.name == "make_scaling" or f.qn == "nano::upscale"]
    n = 0
    for f in fs:
        mode = [p_ for p_ in f.params if "scaling_type" in (p_.get("t") or "")]
        for x in f.nodes():
            if x["k"] == "switch":
                subj = _peel(x["c"][x["r"].index("cond")] if "r" in x and "cond" in x["r"] else x["c"][0])
                n += 1
                R.check(subj is not None and subj["k"] == "ref" and subj.get("d") in [p_["d"] for p_ in mode], "R-C14-8", "%s switch@%d" % (f.name, x["l"]), f.loc(x),
                        "the dispatch is on the scaling mode only", "the affine form is selected by `%s`, not by the scaling mode" % pp(subj))
            if x["k"] in ("if", "cond"):
                cnd = x["c"][x["r"].index("cond")] if "r" in x and "cond" in x["r"] else x["c"][0]
                if x["k"] == "cond" and any(y["k"] == "call" and "__assert" in callee(y) for y in walk(x)):
                    continue        # an expanded assert() (present only without NDEBUG)
                for cj in _conjuncts(cnd):
                    n += 1
                    R.check(_shape_test(cj), "R-C14-8", "%s guard@%d `%s`" % (f.name, x["l"], pp(cj)[:50]), f.loc(x),
                            "the guard tests only the number of columns (scale()/upscale() apply the kernel to every column unconditionally)",
                            "the affine form (w, b) is bypassed under the value-dependent condition `%s` while scalar_stats_t::scale still applies the mode's kernel: "
                            "the un-scaled linear model is then a different predictor" % pp(cj))
    R.floor("R-C14-8", n, 2, "guards of the affine conversion")


def rule_scratch_buffers(F, R):
    """R-C14-9: dataset_t::flatten(samples, buffer) / targets(samples, buffer) return a view of exactly the requested rows; the buffer argument is
    grow-only scratch storage (resize_and_map never shrinks it), so after a shorter batch it still holds rows of an earlier one. The statistics
    (and everything else) must therefore be fed the returned view: the call's value is used, and the buffer object is read nowhere else in the
    function - it only ever appears as the buffer argument of such calls."""
    n = 0
    for f in F.functions.values():
        if f.body is None or not f.relfile.startswith("src/dataset/") or f.cls == "nano::dataset_t":
            continue
        calls = [c for c in f.calls(lambda c: callee(c) in ("nano::dataset_t::flatten", "nano::dataset_t::targets") and len(args(c)) == 2)]
        if not calls:
            continue
        buf_arg_ids = set()
        bufs = {}
        for c in calls:
            b = skip(args(c)[1])
            for y in walk(b):
                buf_arg_ids.add(y["i"])
            root = b
            while root["k"] in ("call", "idx") and root.get("c"):
                root = skip(root["c"][0])       # m_buffers[tnum] -> m_buffers
            key = ("var", root.get("d")) if root["k"] == "ref" else ("mem", root.get("n")) if root["k"] == "mem" else None
            n += 1
            inst = "%s %s@%d" % (f.name if not f.is_lambda else "lambda", callee(c).split("::")[-1], c["l"])
            par = f.parent_of(c)
            while par is not None and par["k"] in ("cast", "paren", "construct", "bind", "materialize", "defarg"):
                par = f.parent_of(par)
            used = par is not None and par["k"] in ("var", "call", "return", "bin", "declstmt", "init", "construct")
            R.check(used, "R-C14-9", inst + " result", f.loc(c), "the returned view (exactly the requested rows) is what the caller goes on with",
                    "the view returned by `%s` is discarded: only the scratch buffer is left, whose extent is that of the largest batch seen so far" % pp(c)[:70])
            if key is not None:
                bufs.setdefault(key, (pp(b), c))
        for key, (txt, c) in bufs.items():
            reads = []
            for y in f.nodes():
                if y["i"] in buf_arg_ids:
                    continue
                if (key[0] == "var" and y["k"] == "ref" and y.get("d") == key[1]) or (key[0] == "mem" and y["k"] == "mem" and y.get("n") == key[1]):
                    reads.append(y)
            R.check(not reads, "R-C14-9", "%s scratch `%s`" % (f.name if not f.is_lambda else "lambda@%d" % f.line, txt[:30]), f.loc(c),
                    "the scratch buffer is only ever handed to flatten()/targets()",
                    "`%s` is the grow-only scratch buffer of flatten()/targets() but is also read at line %s: after a full batch a shorter batch leaves rows of the previous one "
                    "in its tail, so whatever consumes the buffer sees samples twice (statistics: inflated counts, shifted mean / deviation)" % (
                        txt[:40], ", ".join(str(y["l"]) for y in reads[:3])))
    R.floor("R-C14-9", n, 6, "flatten()/targets() calls with a scratch buffer in src/dataset")


def _flatten_mask(F, R, g):
    """the mask handed to the finaliser by make_flatten_stats, evaluated for model datasets (3 features of 2, 1 and 2 columns, every assignment of
    the four feature kinds): column c is masked (0) exactly when feature column2feature(c) is single- or multi-label, enabled (1) otherwise"""
    import itertools
    import sympy as sp
    from ..symexec import Interp
    from ..kalg import OutOfFragment
    dones = [c for c in g.calls(lambda n: callee(n).split("::")[-1] == "done" and len(args(n)) == 2)]
    if len(dones) != 1 or ref_decl(args(dones[0])[1]) is None:
        R.incomplete("R-C14-4", "flatten mask", g.loc(), "expected one call done(stats, mask) with a local mask")
        return
    md = ref_decl(args(dones[0])[1])
    var, _ = find_var(g, md)
    blk = None
    for n in g.nodes():
        if n["k"] == "block" and any(c_ is not None and c_["k"] == "declstmt" and any(v_ is var for v_ in c_.get("c", ())) for c_ in n.get("c", ())):
            blk = n
    if var is None or blk is None:
        R.incomplete("R-C14-4", "flatten mask", g.loc(), "the declaration of the mask was not found")
        return
    stmts, on = [], False
    for c_ in blk["c"]:
        if c_ is not None and c_["k"] == "declstmt" and any(v_ is var for v_ in c_.get("c", ())):
            on = True
            continue
        if c_ is not None and any(x is dones[0] for x in walk(c_)):
            break
        if on:
            stmts.append(c_)
    table = [0, 0, 1, 2, 2]
    KINDS = ("sclass", "mclass", "scalar", "struct")

    class MI(Interp):
        kinds = ()

        def ev(self, n):
            n2 = skip(n)
            if n2 is not None and n2["k"] == "call":
                q = callee(n2)
                nm = q.split("::")[-1]
                if q == "nano::dataset_t::column2feature":
                    i = sp.sympify(self.ev(args(n2)[0]))
                    if not i.is_Integer or not 0 <= int(i) < len(table):
                        raise OutOfFragment("column2feature(%s)" % i)
                    return sp.Integer(table[int(i)])
                if q == "nano::dataset_t::feature":
                    i = sp.sympify(self.ev(args(n2)[0]))
                    if not i.is_Integer or not 0 <= int(i) < len(self.kinds):
                        raise OutOfFragment("feature(%s)" % i)
                    return ("feature", self.kinds[int(i)])
                if q == "nano::dataset_t::columns":
                    return sp.Integer(len(table))
                if q == "nano::dataset_t::features":
                    return sp.Integer(len(self.kinds))
                if q.startswith("nano::feature_t::is_"):
                    o = self.ev(obj(n2))
                    if not (isinstance(o, tuple) and o and o[0] == "feature"):
                        raise OutOfFragment(pp(n2)[:40])
                    return sp.true if nm == "is_" + o[1] else sp.false
            return super().ev(n)

    bad = None
    nrun = 0
    try:
        for kinds in itertools.product(KINDS, repeat=3):
            it = MI(F, g, n=1)
            it.kinds = kinds
            it.env[md] = [sp.Symbol("unset")] * len(table)
            for s_ in stmts:
                it.ex(s_)
            got = it.env[md]
            want = [0 if kinds[table[c]] in ("sclass", "mclass") else 1 for c in range(len(table))]
            nrun += 1
            if [sp.sympify(x) for x in got] != [sp.Integer(x) for x in want]:
                bad = "features (%s) flattened to the columns %s: the mask is %s, expected %s" % (", ".join(kinds), table, list(got), want)
                break
    except OutOfFragment as e:
        R.incomplete("R-C14-4", "flatten mask", g.loc(), "cannot evaluate the construction of the mask: %s" % e)
        return
    R.check(bad is None, "R-C14-4", "flatten mask", g.loc(), "columns of single- and multi-label features are masked (0), the others enabled (1) "
            "(mask evaluated for %d assignments of feature kinds to a 3-feature, 5-column layout)" % nrun,
            "categorical columns are no longer masked out of scaling (or continuous ones no longer enabled): %s" % bad)


def run(ctx):
    R = ctx.report
    F = ctx.facts(TUS)
    rule_modes(F, R)
    rule_done(F, R)
    rule_upscale(F, R)
    rule_unconditional(F, R)
    rule_scratch_buffers(ctx.facts(TUS + ["src/dataset/iterator.cpp"]), R)
