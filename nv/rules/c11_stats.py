"""shared rule (R-C11-6 / R-C20-4): the statistics table is loaded in the order it is stored"""
import re

from ..facts import AnalysisBroken, walk
from ..pp import pp, skip
from ..util import args, assignment, callee, literal_value


def kind_of_store(f, rhs):
    rhs = skip(rhs)
    while rhs["k"] == "cast":
        rhs = skip(rhs["c"][0])
    if rhs["k"] != "call":
        return None
    name = callee(rhs).split("::")[-1]
    if name == "percentile":
        return ("percentile", float(literal_value(args(rhs)[1])))
    if name in ("mean", "stdev", "size"):
        return (name, None)
    return None


def kind_of_field(name):
    m = re.fullmatch(r"m_per(\d+)", name)
    if m:
        return ("percentile", float(int(m.group(1))))
    return {"m_mean": ("mean", None), "m_stdev": ("stdev", None), "m_count": ("size", None)}.get(name)


def rule_stats_table(F, R, rule):
    fs = F.in_file("src/machine/stats.cpp")
    store = [f for f in fs if f.name == "store_stats"]
    load = [f for f in fs if f.name == "load_stats"]
    if not store or not load:
        raise AnalysisBroken("store_stats/load_stats not found in src/machine/stats.cpp")
    st, ld = store[0], load[0]
    slots = {}
    for n in walk(st.body):
        a = assignment(n)
        if a:
            l = skip(a[0])
            if l["k"] == "call" and l.get("op") == "()" and len(l["c"]) == 2 and literal_value(l["c"][1]) is not None:
                slots[literal_value(l["c"][1])] = (kind_of_store(st, a[1]), n)
    cls = F.one_cls("nano::ml::stats_t")
    fields = [fl["n"] for fl in cls["fields"]]
    rets = [n for n in ld.nodes() if n["k"] == "return"]
    if len(rets) != 1:
        raise AnalysisBroken("load_stats: expected one return")
    agg = skip(rets[0]["c"][0])
    while agg["k"] in ("construct", "cast") and len(agg.get("c", ())) == 1:
        agg = skip(agg["c"][0])
    if agg["k"] != "initlist":
        R.incomplete(rule, "load_stats", ld.loc(), "result is not an aggregate initialiser")
        return
    n = 0
    for i, el in enumerate(agg["c"]):
        el = skip(el)
        k = None
        if el["k"] == "call" and el.get("op") == "()" and len(el["c"]) == 2:
            k = literal_value(el["c"][1])
        field = fields[i] if i < len(fields) else "?"
        inst = "stats_t::%s" % field
        n += 1
        want = kind_of_field(field)
        got = slots.get(k, (None, None))[0]
        R.check(k is not None and want is not None and got == want, rule, inst, ld.loc(el),
                "field %s is loaded from slot %s which stores %s" % (field, k, want),
                "field %s is loaded from slot %s, but that slot stores %s" % (field, k, got))
    R.floor(rule, n, 12, "statistics slots")
    R.check(len(slots) == len(fields), rule, "stats table size", st.loc(), "%d slots stored for %d fields" % (len(slots), len(fields)),
            "%d slots stored for %d fields" % (len(slots), len(fields)))
