"""C20 - order statistics and histograms are consistent with a sorted-array reference (DESIGN 3, C20)."""
from ..facts import AnalysisBroken, walk, strip_targs
from ..pp import pp, skip
from ..util import args, assignment, callee, is_call, is_literal, obj, ref_decl, literal_value, find_var
from .. import kalg

META = {
    "level": "other",
    "technique": "lossy-conversion-before-ordering dataflow rule, sibling agreement of counting and lookup rules, expression algebra for the percentile position",
    "explanation": "Decides: no value-changing (floating-to-integral) conversion lies on a path from an input of the order-statistics / "
                   "histogram code to an ordering comparison or binary search, except conversions applied directly to floor/ceil; the "
                   "histogram's counting rule (value goes right of threshold t iff value >= t) and bin() lookup rule (number of "
                   "thresholds <= query) are the same rule and the beyond-the-last case returns the last bin; the percentile position "
                   "is p*(n-1)/100 with floor/ceil neighbours and the midpoint of the two when fractional, identically in the sorted "
                   "and unsorted variants; after a partial sort only the partition position is read; the stored statistics table is "
                   "read back in the order it is written.",
    "not_decided": "per-bin counts, means and medians for arbitrary data (loop-carried numerical results)",
    "assumptions": ["std::upper_bound / std::nth_element behave as specified"],
}

TUS = ["witness/stats_inst.cpp", "src/core/histogram.cpp", "src/machine/stats.cpp"]
FILES = ("include/nano/core/stats.h", "include/nano/core/histogram.h")
ORDERING = {"std::upper_bound", "std::lower_bound", "std::binary_search", "std::equal_range", "std::sort", "std::nth_element",
            "std::min", "std::max", "std::clamp"}
EXACT = {"std::floor", "std::ceil", "std::round", "std::trunc", "floor", "ceil", "round", "trunc", "std::lround", "std::llround"}


def uses_in_ordering(f, decl):
    """ordering uses of a local: argument of a search/sort algorithm or operand of <,<=,>,>="""
    out = []
    for n in f.nodes():
        if n["k"] == "call" and callee(n) in ORDERING:
            # for search algorithms the key is the 3rd argument; for the others any argument
            a = args(n)
            for j, x in enumerate(a):
                if any(y["k"] == "ref" and y.get("d") == decl for y in walk(x)):
                    out.append(n)
        elif n["k"] == "bin" and n["op"] in ("<", "<=", ">", ">="):
            if any(ref_decl(x) == decl for x in n["c"]):
                out.append(n)
    return out


def rule_lossy(F, R):
    n = 0
    fns = [f for f in F.functions.values() if f.relfile in FILES]
    for f in fns:
        for c in f.nodes():
            if c["k"] != "cast" or c.get("ck") != "FloatingToIntegral":
                continue
            n += 1
            inst = "%s cast@%s [%s]" % (f.qn.split("::")[-1], f.loc(c), ",".join(f.raw.get("targs", []))[:40])
            operand = skip(c["c"][0])
            if operand["k"] == "call" and callee(operand) in EXACT:
                R.ok("R-C20-1", inst, f.loc(c), "integral conversion of an exactly rounded value (%s)" % pp(operand)[:60])
                continue
            # where does the converted value go?
            par = f.parent_of(c)
            while par is not None and par["k"] in ("cast", "construct"):
                par = f.parent_of(par)
            bad = None
            if par is not None and par["k"] == "var":
                uses = uses_in_ordering(f, par["d"])
                if uses:
                    bad = uses[0]
            elif par is not None and ((par["k"] == "call" and callee(par) in ORDERING) or (par["k"] == "bin" and par["op"] in ("<", "<=", ">", ">="))):
                bad = par
            R.check(bad is None, "R-C20-1", inst, f.loc(c), "truncated value is not used for ordering",
                    "`%s` truncates a real value which is then ordered against the thresholds/values in `%s`: every v in (t, ceil(t)) lands in the wrong bin" % (
                        pp(c), pp(bad)[:90] if bad else ""))
    R.floor("R-C20-1", n, 4, "floating-to-integral conversions in the order-statistics code")
    return n


def rule_counting(F, R):
    bins = [f for f in F.functions.values() if f.qn == "nano::histogram_t::bin" and f.relfile == FILES[1]]
    ups = [f for f in F.functions.values() if f.qn == "nano::histogram_t::update" and f.relfile == FILES[1]]
    R.floor("R-C20-2/bin", len(bins), 3, "bin<> instantiations")
    R.floor("R-C20-2/update", len(ups), 2, "update<> instantiations")
    for f in ups[:1]:
        ub = [c for c in f.calls(lambda x: callee(x) in ("std::upper_bound", "std::lower_bound"))]
        ok = False
        detail = "no binary search"
        if len(ub) == 1 and callee(ub[0]) == "std::upper_bound" and len(args(ub[0])) == 4:
            cmp_ = skip(args(ub[0])[3])
            lam = None
            if cmp_["k"] == "lambda":
                lam = F.by_lid.get(cmp_.get("lid"), [None])[0]
            elif cmp_["k"] == "ref":
                var, _ = find_var(f, cmp_["d"])
                if var is not None and var.get("c") and skip(var["c"][0])["k"] == "lambda":
                    lam = F.by_lid.get(skip(var["c"][0]).get("lid"), [None])[0]
            if lam is not None:
                rets = [x for x in lam.nodes() if x["k"] == "return"]
                if len(rets) == 1:
                    e = skip(rets[0]["c"][0])
                    key, elem = lam.params[0]["n"], lam.params[1]["n"]
                    txt = pp(e)
                    ok = txt in ("(%s >= %s)" % (elem, key), "(%s <= %s)" % (key, elem))
                    detail = "comparator(key=%s, element=%s) returns %s" % (key, elem, txt)
            keyarg = pp(args(ub[0])[2])
            ok = ok and keyarg.startswith("m_thresholds")
        elif len(ub) == 1 and callee(ub[0]) == "std::lower_bound" and len(args(ub[0])) == 3:
            # first element not below the key (default order) - the same boundary; a narrowing of the key is R-C20-1's business
            k_ = skip(args(ub[0])[2])
            for _ in range(3):
                while k_["k"] == "cast" and k_.get("c"):
                    k_ = skip(k_["c"][0])
                if k_["k"] == "ref":
                    var, _b = find_var(f, k_["d"])
                    if var is not None and var.get("c"):
                        k_ = skip(var["c"][0])
                        continue
                break
            ok = pp(k_).startswith("m_thresholds")
            detail = "lower_bound over the values with key %s" % pp(k_)[:40]
        R.check(ok, "R-C20-2", "update counting rule", f.loc(), "a value is counted right of threshold t iff value >= t (upper_bound with `element >= key`, or lower_bound in the default order)",
                "counting rule changed: " + detail)
    for f in bins:
        inst = "bin<%s>" % ",".join(f.raw.get("targs", []))
        # the lookup is *executed* (concretely, on tiny threshold lists with duplicates) and compared with the counting rule of update():
        # bin(v) = number of thresholds <= v
        bad, unknown = None, None
        for ths in ([], [1.0], [0.0, 2.0], [0.0, 0.0, 2.0], [0.0, 0.0, 0.0, 2.0], [1.0, 1.0], [-1.5, 0.5, 0.5, 3.0]):
            qs = sorted({q for t in ths for q in (t - 0.5, t, t + 0.5)} | {-100.0, 0.0, 100.0})
            for q in qs:
                if "char" in inst or "int" in inst or "long" in inst or "short" in inst:
                    if q != int(q):
                        continue            # integral query types are exercised with integral values only (their narrowing is R-C20-1's business)
                try:
                    got = _bin_eval(f, ths, q)
                except _BinUnknown as e:
                    unknown = str(e)
                    break
                want = len([t for t in ths if t <= q])
                if got != want:
                    bad = "thresholds %s, query %s: bin() returns %s, the counting rule of update() puts the value in bin %d" % (ths, q, got, want)
                    break
            if bad or unknown:
                break
        if unknown and not bad:
            R.incomplete("R-C20-2", inst + " lookup rule", f.loc(), "cannot execute bin(): %s" % unknown)
        else:
            R.check(bad is None, "R-C20-2", inst + " lookup rule", f.loc(), "bin(v) = number of thresholds <= v, also for duplicated thresholds, below the first and beyond the last one",
                    "bin() disagrees with the counting rule: %s" % bad)


class _BinUnknown(Exception):
    pass


def _bin_eval(f, ths, q):
    """concrete execution of histogram_t::bin on the sorted threshold list `ths` and the query `q`"""
    import bisect
    env = {f.params[0]["d"]: q}

    class Ret(Exception):
        def __init__(self, v):
            self.v = v

    def ev(n):
        n = skip(n)
        k = n["k"]
        if k == "paren":
            return ev(n["c"][0])
        if k == "cast":
            v = ev(n["c"][0])
            t = (n.get("t") or "")
            if n.get("ck") == "FloatingToIntegral" or (isinstance(v, float) and any(x in t for x in ("int", "long", "short", "char")) and "*" not in t and "double" not in t and "float" not in t):
                return int(v)
            return v
        if k in ("int", "float"):
            return n["v"]
        if k == "bool":
            return bool(n["v"])
        if k == "ref":
            if n.get("d") in env:
                return env[n["d"]]
            raise _BinUnknown("variable " + str(n.get("n")))
        if k == "mem" and n.get("n") == "m_thresholds":
            return ("arr",)
        if k == "un" and n.get("op") == "*":
            p_ = ev(n["c"][0])
            if isinstance(p_, tuple) and p_[0] == "ptr" and 0 <= p_[1] < len(ths):
                return ths[p_[1]]
            raise _BinUnknown("dereference outside the thresholds")
        if k == "un" and n.get("op") == "!":
            return not ev(n["c"][0])
        if k == "un" and n.get("op") == "-":
            return -ev(n["c"][0])
        if k == "cond":
            return ev(n["c"][1]) if ev(n["c"][0]) else ev(n["c"][2])
        if k == "bin":
            op = n["op"]
            if op == "&&":
                return bool(ev(n["c"][0])) and bool(ev(n["c"][1]))
            if op == "||":
                return bool(ev(n["c"][0])) or bool(ev(n["c"][1]))
            a_, b_ = ev(n["c"][0]), ev(n["c"][1])
            pa, pb = isinstance(a_, tuple), isinstance(b_, tuple)
            if pa and pb:
                if op in ("==", "!=", "<", "<="):
                    return {"==": a_[1] == b_[1], "!=": a_[1] != b_[1], "<": a_[1] < b_[1], "<=": a_[1] <= b_[1]}[op]
                if op == "-":
                    return a_[1] - b_[1]
            if pa and not pb and op in ("+", "-"):
                return ("ptr", a_[1] + (b_ if op == "+" else -b_))
            if pb and not pa and op == "+":
                return ("ptr", b_[1] + a_)
            if not pa and not pb and op in ("==", "!=", "<", "<=", "+", "-", "*", "/"):
                return {"==": lambda: a_ == b_, "!=": lambda: a_ != b_, "<": lambda: a_ < b_, "<=": lambda: a_ <= b_, "+": lambda: a_ + b_, "-": lambda: a_ - b_,
                        "*": lambda: a_ * b_, "/": lambda: a_ / b_}[op]()
            raise _BinUnknown("operator " + op)
        if k == "call":
            cq = callee(n)
            short_ = cq.split("::")[-1].split("<")[0]
            ar = args(n)
            if short_ in ("begin", "cbegin", "end", "cend", "data") and (len(ar) == 1 or (n.get("ck") == "mem" and not ar)):
                o_ = ev(ar[0] if len(ar) == 1 else n["c"][0])
                if o_ == ("arr",):
                    return ("ptr", 0 if short_ in ("begin", "cbegin", "data") else len(ths))
            if cq in ("std::upper_bound", "std::lower_bound") and len(ar) == 3:
                b_, e_, v_ = ev(ar[0]), ev(ar[1]), ev(ar[2])
                if isinstance(b_, tuple) and isinstance(e_, tuple):
                    sl = ths[b_[1]:e_[1]]
                    pos = bisect.bisect_right(sl, v_) if cq.endswith("upper_bound") else bisect.bisect_left(sl, v_)
                    return ("ptr", b_[1] + pos)
            if cq == "std::distance" and len(ar) == 2:
                b_, e_ = ev(ar[0]), ev(ar[1])
                return e_[1] - b_[1]
            if cq in ("std::next", "std::prev") and len(ar) in (1, 2):
                p_ = ev(ar[0])
                k_ = ev(ar[1]) if len(ar) == 2 else 1
                return ("ptr", p_[1] + (k_ if cq == "std::next" else -k_))
            if short_ == "bins" and not ar:
                return len(ths) + 1
            if short_ == "size" and not ar and n.get("ck") == "mem" and ev(n["c"][0]) == ("arr",):
                return len(ths)
            raise _BinUnknown("call " + pp(n)[:50])
        raise _BinUnknown(k + " " + pp(n)[:40])

    def run(st):
        if st is None:
            return
        k = st["k"]
        if k == "block":
            for c_ in st.get("c", ()):
                run(c_)
        elif k == "declstmt":
            for v in st.get("c", ()):
                if v is not None and v["k"] == "var" and v.get("c"):
                    env[v["d"]] = ev(v["c"][0])
        elif k == "if":
            r = st["r"]
            if "init" in r and st["c"][r.index("init")] is not None:
                run(st["c"][r.index("init")])
            if ev(st["c"][r.index("cond")]):
                run(st["c"][r.index("then")])
            elif "else" in r:
                run(st["c"][r.index("else")])
        elif k == "return":
            raise Ret(ev(st["c"][0]))
        elif k in ("for", "while"):
            r = st["r"]
            if "init" in r and st["c"][r.index("init")] is not None:
                run(st["c"][r.index("init")])
            guard = 0
            while ev(st["c"][r.index("cond")]):
                run(st["c"][r.index("body")])
                if "inc" in r and st["c"][r.index("inc")] is not None:
                    run(st["c"][r.index("inc")])
                guard += 1
                if guard > 64:
                    raise _BinUnknown("loop does not terminate on the test instance")
        elif k == "un" and st.get("op") in ("++", "--"):
            d_ = ref_decl(st["c"][0])
            v = env.get(d_)
            delta = 1 if st["op"] == "++" else -1
            env[d_] = ("ptr", v[1] + delta) if isinstance(v, tuple) else v + delta
        elif assignment(st):
            a_ = assignment(st)
            d_ = ref_decl(a_[0])
            v = ev(a_[1])
            if a_[2] == "=":
                env[d_] = v
            else:
                old = env[d_]
                env[d_] = {"+=": lambda: (("ptr", old[1] + v) if isinstance(old, tuple) else old + v), "-=": lambda: (("ptr", old[1] - v) if isinstance(old, tuple) else old - v)}[a_[2]]()
        else:
            ev(st)
    try:
        run(f.body)
    except Ret as r_:
        return r_.v
    except (KeyError, TypeError, IndexError) as e:
        raise _BinUnknown(repr(e))
    raise _BinUnknown("no return reached")


def rule_percentile(F, R):
    fs = [f for f in F.functions.values() if f.qn == "nano::detail::percentile" and f.relfile == FILES[0]]
    R.floor("R-C20-3", len(fs), 3, "percentile instantiations")
    seen = 0
    for f in fs:
        inst = "detail::percentile@%d" % seen
        if seen >= 2:
            break
        seen += 1
        vars_ = {n["n"]: n for n in f.nodes() if n["k"] == "var"}
        need = ("size", "position", "lpos", "rpos")
        if any(v not in vars_ for v in need):
            # locals renamed: identify by shape instead
            R.incomplete("R-C20-3", inst, f.loc(), "cannot identify the position variables")
            continue
        z, det = kalg.compare_expr(f, vars_["position"]["c"][0], "percentage*(size-1)/100", atoms={"distance(begin, end)": "size"}, seed=R.seed)
        if z is None:
            R.incomplete("R-C20-3", inst + " position", f.loc(vars_["position"]), det)
        else:
            R.check(z, "R-C20-3", inst + " position", f.loc(vars_["position"]), "position = p*(n-1)/100", "percentile position is not p*(n-1)/100: " + det)
        # floating point: an integral position must come out exactly integral, so the (exact) product p*(n-1) is formed first and divided
        # by 100 last; (p/100)*(n-1) rounds p/100 first and lands one ulp off integral positions (midpoint of two neighbours instead of the value)
        def op_tree(n, depth=0):
            n = skip(n)
            while n is not None and n["k"] == "cast":
                n = skip(n["c"][0])
            if n is None:
                return "?"
            if n["k"] == "bin" and n["op"] in ("*", "/", "+", "-"):
                return (n["op"], op_tree(n["c"][0], depth + 1), op_tree(n["c"][1], depth + 1))
            if n["k"] == "ref" and n.get("dk") == "var" and depth < 6:
                v_, _ = find_var(f, n["d"])
                if v_ is not None and v_.get("c") and v_["n"] not in ("size",):
                    return op_tree(v_["c"][0], depth + 1)
            if n["k"] in ("int", "float"):
                return float(n["v"])
            return pp(n)
        tree = op_tree(vars_["position"]["c"][0])
        prod = tree[1] if isinstance(tree, tuple) and tree[0] == "/" and tree[2] == 100.0 else None
        oko = isinstance(prod, tuple) and prod[0] == "*" and sorted(map(str, prod[1:])) == sorted(["percentage", str(("-", "size", 1.0))])
        R.check(bool(oko), "R-C20-3", inst + " operation order", f.loc(vars_["position"]), "the division by 100 is applied last, to the product p*(n-1)",
                "the position is evaluated as %s: dividing before multiplying rounds p/100 first, so mathematically integral positions come out one ulp off and the midpoint of two "
                "neighbours is returned instead of the value at that position (e.g. p=28, n=26)" % (tree,))
        lp, rp = skip(vars_["lpos"]["c"][0]), skip(vars_["rpos"]["c"][0])
        def inner_call(n):
            while n is not None and n["k"] in ("cast",):
                n = skip(n["c"][0])
            return n
        lc, rc = inner_call(lp), inner_call(rp)
        ok = lc["k"] == "call" and callee(lc) in ("std::floor", "floor") and rc["k"] == "call" and callee(rc) in ("std::ceil", "ceil") and \
            pp(args(lc)[0]) == "position" and pp(args(rc)[0]) == "position"
        R.check(ok, "R-C20-3", inst + " neighbours", f.loc(vars_["lpos"]), "lpos = floor(position), rpos = ceil(position)",
                "neighbour positions are %s / %s" % (pp(lp), pp(rp)))
        # result: from_position(lpos) if equal else (from(lpos)+from(rpos))/2
        rets = [x for x in f.nodes() if x["k"] == "return"]
        txt = sorted(pp(r["c"][0]) for r in rets)
        cond = [x for x in f.nodes() if x["k"] == "if"]
        okr = len(rets) == 2 and len(cond) == 1 and pp(cond[0]["c"][cond[0]["r"].index("cond")]) in ("(lpos == rpos)", "(rpos == lpos)")
        if okr:
            then = cond[0]["c"][cond[0]["r"].index("then")]
            els = cond[0]["c"][cond[0]["r"].index("else")]
            r1 = [x for x in walk(then) if x["k"] == "return"]
            r2 = [x for x in walk(els) if x["k"] == "return"]
            okr = len(r1) == 1 and len(r2) == 1 and pp(r1[0]["c"][0]) in ("from_position(lpos)", "from_position(rpos)")
            if okr:
                z, det = kalg.compare_expr(f, r2[0]["c"][0], "(fl + fr)/2", atoms={"from_position(lpos)": "fl", "from_position(rpos)": "fr"}, seed=R.seed)
                okr = bool(z)
        R.check(okr, "R-C20-3", inst + " result", f.loc(), "exact position -> that value, fractional -> midpoint of the two neighbours",
                "percentile result rule changed: returns %s" % txt)
    # sorted / unsorted variants differ only in how a position is fetched; partial sort read at the partition point
    for name in ("nano::percentile", "nano::percentile_sorted"):
        fs = [f for f in F.functions.values() if f.qn == name and f.relfile == FILES[0]]
        for f in fs[:1]:
            call = [c for c in f.calls(lambda x: callee(x) == "nano::detail::percentile")]
            okc = len(call) == 1 and [pp(x) for x in args(call[0])[:3]] == ["begin", "end", "percentage"]
            R.check(okc, "R-C20-3", name.split("::")[-1] + " delegates", f.loc(), "delegates to the shared position rule with (begin, end, percentage)",
                    "no longer delegates (begin, end, percentage) to the shared rule")
            for lam, body in F.lambdas_in(f)[:1]:
                adv = [c for c in body.calls(lambda x: callee(x) == "std::advance")]
                nth = [c for c in body.calls(lambda x: callee(x) == "std::nth_element")]
                rets = [x for x in body.nodes() if x["k"] == "return"]
                okl = len(adv) == 1 and len(rets) == 1 and pp(args(adv[0])[1]) == body.params[0]["n"]
                if okl:
                    mid = pp(args(adv[0])[0])
                    okl = ("(*%s)" % mid) in pp(rets[0]["c"][0])
                    if name.endswith("percentile") and not name.endswith("sorted"):
                        okl = okl and len(nth) == 1 and pp(args(nth[0])[1]) == mid and pp(args(nth[0])[0]) == "begin" and pp(args(nth[0])[2]) == "end"
                R.check(okl, "R-C20-3", name.split("::")[-1] + " from_position", body.loc(),
                        "reads the element at the requested position" + (" (the partition point of nth_element)" if nth else ""),
                        "value is not read at the requested position / not at the nth_element partition point")
    meds = [(n, [f for f in F.functions.values() if f.qn == "nano::" + n and f.relfile == FILES[0]]) for n in ("median", "median_sorted")]
    for name, fs in meds:
        for f in fs[:1]:
            c = [x for x in f.calls(lambda x: callee(x) in ("nano::percentile", "nano::percentile_sorted"))]
            want = "nano::percentile" + ("_sorted" if name.endswith("sorted") else "")
            okm = len(c) == 1 and callee(c[0]) == want and literal_value(args(c[0])[2]) == 50
            R.check(okm, "R-C20-3", name, f.loc(), "median is the 50th percentile of the matching variant", "median no longer is %s(.., 50)" % want)


def rule_sorted(F, R):
    """R-C20-5: upper_bound in update()/bin() is only meaningful on sorted ranges: every constructor path reaches update() with the
    values and the thresholds sorted (std::sort, or the true edge of std::is_sorted), and nothing else writes the thresholds."""
    from ..cfg import must_dataflow
    from ..util import strip_not, writes_in, member_path
    ctors = [f for f in F.functions.values() if f.cls == "nano::histogram_t" and f.raw.get("ctor") and f.relfile == FILES[1] and
             f.calls(lambda x: callee(x) == "nano::histogram_t::update")]
    R.floor("R-C20-5", len(ctors), 2, "histogram constructors calling update()")

    def which(f, a, b):
        ta, tb = pp(a), pp(b)
        if len(f.params) >= 2 and (ta, tb) == (f.params[0]["n"], f.params[1]["n"]):
            return "values"
        if ta in ("begin(m_thresholds)", "m_thresholds.begin()") and tb in ("end(m_thresholds)", "m_thresholds.end()"):
            return "thresholds"
        return None

    for f in ctors:
        cfg = f.cfg

        def telem(facts, e, f=f):
            if e.kind != "node":
                return
            n = e.node
            if n["k"] == "call" and callee(n) in ("std::sort", "std::stable_sort") and len(args(n)) == 2:
                w = which(f, *args(n))
                if w:
                    facts.add(w)

        def tedge(facts, b, k, f=f):
            if b.cond is None or len(b.succ) != 2:
                return
            c, neg = strip_not(b.cond)
            c = skip(c)
            if c["k"] == "call" and callee(c) == "std::is_sorted" and len(args(c)) == 2:
                w = which(f, *args(c))
                if w and ((k == 0) != bool(neg)):
                    facts.add(w)

        IN, before = must_dataflow(cfg, set(), telem, tedge)
        for u in f.calls(lambda x: callee(x) == "nano::histogram_t::update"):
            w = cfg.where_enclosing(u)
            facts = before(*w) if w else None
            inst = "ctor@%s" % f.loc()
            if facts is None:
                R.incomplete("R-C20-5", inst, f.loc(u), "update() call not found in the CFG")
                continue
            missing = [x for x in ("values", "thresholds") if x not in facts]
            R.check(not missing, "R-C20-5", inst, f.loc(u), "values and thresholds are sorted on every path to update()",
                    "update() (binary search per threshold) can be reached with unsorted %s: bin counts and bin lookups are wrong for such inputs" % " and ".join(missing))
    # who may write the thresholds
    writers = set()
    for f in F.functions.values():
        if f.cls != "nano::histogram_t" or f.relfile != FILES[1] or f.raw.get("ctor"):
            continue
        for tgt, kind, site in writes_in(f, f.body):
            if member_path(tgt) == "m_thresholds":
                writers.add("%s (%s)" % (f.qn, f.loc(site)))
    R.check(not writers, "R-C20-5", "thresholds writers", FILES[1] + ":1", "only constructors write m_thresholds (they stay sorted)",
            "m_thresholds is modified outside the constructors: %s" % sorted(writers)[:3])


def rule_bin_statistics(F, R):
    """R-C20-6: the three per-bin statistics keep their identity from the place they are computed to the place they are read: update_bin
    stores the element count in one member, the mean (the helper that accumulates and divides by the count) in a second and the median
    (median_sorted over the bin's range) in a third, over the same [begin, end) it was given; the vector accessor and the per-bin accessor
    of each statistic return that very member."""
    hs = [f for f in F.functions.values() if f.cls == "nano::histogram_t" and f.relfile == FILES[1] and f.body is not None]
    ubs = [f for f in hs if f.name == "update_bin"]
    if not ubs:
        raise AnalysisBroken("histogram_t::update_bin not found")
    f = ubs[0]
    role = {}
    for x in f.nodes():
        a_ = assignment(x)
        if not a_ or a_[2] != "=":
            continue
        l = skip(a_[0])
        if not (l["k"] == "call" and l.get("op") == "()" and skip(l["c"][0])["k"] == "mem" and pp(l["c"][1]) == f.params[2]["n"]):
            continue
        mem = skip(l["c"][0])["n"]
        r = skip(a_[1])
        while r["k"] == "cast" and r.get("c"):
            r = skip(r["c"][0])
        if r["k"] == "ref":
            v, _ = find_var(f, r.get("d"))
            r2 = skip(v["c"][0]) if v is not None and v.get("c") else r
            while r2["k"] == "cast" and r2.get("c"):
                r2 = skip(r2["c"][0])
            if r2["k"] == "call" and callee(r2) == "std::distance":
                role.setdefault(mem, set()).add("count")
        elif r["k"] == "call":
            cq = callee(r).split("::")[-1].split("<")[0]
            rng = [pp(x_) for x_ in args(r)[:2]] == [f.params[0]["n"], f.params[1]["n"]]
            if cq == "mean" and rng:
                role.setdefault(mem, set()).add("mean")
            elif cq in ("median_sorted", "median") and rng:
                role.setdefault(mem, set()).add("median")
            elif cq == "quiet_NaN":
                role.setdefault(mem, set()).add("nan")
            else:
                role.setdefault(mem, set()).add("other:" + pp(r)[:30])
    by_role = {}
    for mem, rs in role.items():
        for r_ in rs - {"nan"}:
            by_role.setdefault(r_, set()).add(mem)
    ok = all(len(by_role.get(k, ())) == 1 for k in ("count", "mean", "median")) and len({next(iter(by_role[k])) for k in ("count", "mean", "median") if by_role.get(k)}) == 3 and \
        not any(k.startswith("other") for k in by_role)
    R.check(ok, "R-C20-6", "update_bin", f.loc(), "count, mean and median of the bin's own range are stored in three distinct members",
            "update_bin stores %s" % {k: sorted(v) for k, v in sorted(by_role.items())})
    if not ok:
        return
    member = {k: next(iter(v)) for k, v in by_role.items()}
    n = 0
    for stat, (vec, one) in {"count": ("counts", "count"), "mean": ("means", "mean"), "median": ("medians", "median")}.items():
        for name, indexed in ((vec, False), (one, True)):
            gs = [g for g in hs if g.name == name and g.is_const and len(g.params) == (1 if indexed else 0)]
            for g in gs[:1]:
                rets = [x for x in g.nodes() if x["k"] == "return" and x.get("c")]
                got = None
                if len(rets) == 1:
                    e = skip(rets[0]["c"][0])
                    while e["k"] == "cast" and e.get("c"):
                        e = skip(e["c"][0])
                    if indexed and e["k"] == "call" and e.get("op") == "()" and skip(e["c"][0])["k"] == "mem" and ref_decl(e["c"][1]) == g.params[0]["d"]:
                        got = skip(e["c"][0])["n"]
                    elif not indexed and e["k"] == "mem":
                        got = e["n"]
                n += 1
                R.check(got == member[stat], "R-C20-6", "%s(%s)" % (name, "bin" if indexed else ""), g.loc(), "returns the member update_bin fills with the bin's %s" % stat,
                        "%s(%s) returns `%s`, but the bin's %s is stored in `%s`" % (name, "bin" if indexed else "", pp(rets[0]["c"][0])[:40] if rets else "?", stat, member[stat]))
    R.floor("R-C20-6", n, 6, "accessors of the per-bin statistics")


def run(ctx):
    R = ctx.report
    F = ctx.facts(TUS)
    rule_lossy(F, R)
    rule_counting(F, R)
    rule_percentile(F, R)
    rule_sorted(F, R)
    rule_bin_statistics(F, R)
    from . import c11_stats
    c11_stats.rule_stats_table(F, R, "R-C20-4")
