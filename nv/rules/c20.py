"""C20 - order statistics and histograms are consistent with a sorted-array reference (DESIGN 3, C20)."""
from ..facts import AnalysisBroken, walk, strip_targs
from ..pp import pp, skip
from ..util import args, assignment, callee, is_call, is_literal, obj, ref_decl, literal_value, find_var
from .. import kalg

META = {
    "level": "other",
    "technique": "lossy-conversion-before-ordering dataflow rule, sibling agreement of counting and lookup rules, expression algebra for the percentile position",
    "explanation": "Decides: no value-changing (floating-to-integral) conversion lies on a path from an input of the order-statistics / "
                   "histogram code to an ordering comparison or binary search, except conversions applied directly to floor/ceil; the "
                   "histogram's counting rule (value goes right of threshold t iff value >= t) and bin() lookup rule (number of "
                   "thresholds <= query) are the same rule and the beyond-the-last case returns the last bin; the percentile position "
                   "is p*(n-1)/100 with floor/ceil neighbours and the midpoint of the two when fractional, identically in the sorted "
                   "and unsorted variants; after a partial sort only the partition position is read; the stored statistics table is "
                   "read back in the order it is written.",
    "not_decided": "per-bin counts, means and medians for arbitrary data (loop-carried numerical results)",
    "assumptions": ["std::upper_bound / std::nth_element behave as specified"],
}

TUS = ["witness/stats_inst.cpp", "src/core/histogram.cpp", "src/machine/stats.cpp"]
FILES = ("include/nano/core/stats.h", "include/nano/core/histogram.h")
ORDERING = {"std::upper_bound", "std::lower_bound", "std::binary_search", "std::equal_range", "std::sort", "std::nth_element",
            "std::min", "std::max", "std::clamp"}
EXACT = {"std::floor", "std::ceil", "std::round", "std::trunc", "floor", "ceil", "round", "trunc", "std::lround", "std::llround"}


def uses_in_ordering(f, decl):
    """ordering uses of a local: argument of a search/sort algorithm or operand of <,<=,>,>="""
    out = []
    for n in f.nodes():
        if n["k"] == "call" and callee(n) in ORDERING:
            # for search algorithms the key is the 3rd argument; for the others any argument
            a = args(n)
            for j, x in enumerate(a):
                if any(y["k"] == "ref" and y.get("d") == decl for y in walk(x)):
                    out.append(n)
        elif n["k"] == "bin" and n["op"] in ("<", "<=", ">", ">="):
            if any(ref_decl(x) == decl for x in n["c"]):
                out.append(n)
    return out


def rule_lossy(F, R):
    n = 0
    fns = [f for f in F.functions.values() if f.relfile in FILES]
    for f in fns:
        for c in f.nodes():
            if c["k"] != "cast" or c.get("ck") != "FloatingToIntegral":
                continue
            n += 1
            inst = "%s cast@%s [%s]" % (f.qn.split("::")[-1], f.loc(c), ",".join(f.raw.get("targs", []))[:40])
            operand = skip(c["c"][0])
            if operand["k"] == "call" and callee(operand) in EXACT:
                R.ok("R-C20-1", inst, f.loc(c), "integral conversion of an exactly rounded value (%s)" % pp(operand)[:60])
                continue
            # where does the converted value go?
            par = f.parent_of(c)
            while par is not None and par["k"] in ("cast", "construct"):
                par = f.parent_of(par)
            bad = None
            if par is not None and par["k"] == "var":
                uses = uses_in_ordering(f, par["d"])
                if uses:
                    bad = uses[0]
            elif par is not None and ((par["k"] == "call" and callee(par) in ORDERING) or (par["k"] == "bin" and par["op"] in ("<", "<=", ">", ">="))):
                bad = par
            R.check(bad is None, "R-C20-1", inst, f.loc(c), "truncated value is not used for ordering",
                    "`%s` truncates a real value which is then ordered against the thresholds/values in `%s`: every v in (t, ceil(t)) lands in the wrong bin" % (
                        pp(c), pp(bad)[:90] if bad else ""))
    R.floor("R-C20-1", n, 4, "floating-to-integral conversions in the order-statistics code")
    return n


def rule_counting(F, R):
    bins = [f for f in F.functions.values() if f.qn == "nano::histogram_t::bin" and f.relfile == FILES[1]]
    ups = [f for f in F.functions.values() if f.qn == "nano::histogram_t::update" and f.relfile == FILES[1]]
    R.floor("R-C20-2/bin", len(bins), 3, "bin<> instantiations")
    R.floor("R-C20-2/update", len(ups), 2, "update<> instantiations")
    for f in ups[:1]:
        ub = [c for c in f.calls(lambda x: callee(x) in ("std::upper_bound", "std::lower_bound"))]
        ok = False
        detail = "no binary search"
        if len(ub) == 1 and callee(ub[0]) == "std::upper_bound" and len(args(ub[0])) == 4:
            cmp_ = skip(args(ub[0])[3])
            lam = None
            if cmp_["k"] == "lambda":
                lam = F.by_lid.get(cmp_.get("lid"), [None])[0]
            elif cmp_["k"] == "ref":
                var, _ = find_var(f, cmp_["d"])
                if var is not None and var.get("c") and skip(var["c"][0])["k"] == "lambda":
                    lam = F.by_lid.get(skip(var["c"][0]).get("lid"), [None])[0]
            if lam is not None:
                rets = [x for x in lam.nodes() if x["k"] == "return"]
                if len(rets) == 1:
                    e = skip(rets[0]["c"][0])
                    key, elem = lam.params[0]["n"], lam.params[1]["n"]
                    txt = pp(e)
                    ok = txt in ("(%s >= %s)" % (elem, key), "(%s <= %s)" % (key, elem))
                    detail = "comparator(key=%s, element=%s) returns %s" % (key, elem, txt)
            keyarg = pp(args(ub[0])[2])
            ok = ok and keyarg.startswith("m_thresholds")
        elif len(ub) == 1 and callee(ub[0]) == "std::lower_bound" and len(args(ub[0])) == 3:
            # first element not below the key (default order) - the same boundary; a narrowing of the key is R-C20-1's business
            k_ = skip(args(ub[0])[2])
            for _ in range(3):
                while k_["k"] == "cast" and k_.get("c"):
                    k_ = skip(k_["c"][0])
                if k_["k"] == "ref":
                    var, _b = find_var(f, k_["d"])
                    if var is not None and var.get("c"):
                        k_ = skip(var["c"][0])
                        continue
                break
            ok = pp(k_).startswith("m_thresholds")
            detail = "lower_bound over the values with key %s" % pp(k_)[:40]
        R.check(ok, "R-C20-2", "update counting rule", f.loc(), "a value is counted right of threshold t iff value >= t (upper_bound with `element >= key`, or lower_bound in the default order)",
                "counting rule changed: " + detail)
    for f in bins:
        inst = "bin<%s>" % ",".join(f.raw.get("targs", []))
        # the lookup is *executed* (concretely, on tiny threshold lists with duplicates) and compared with the counting rule of update():
        # bin(v) = number of thresholds <= v
        bad, unknown = None, None
        for ths in ([], [1.0], [0.0, 2.0], [0.0, 0.0, 2.0], [0.0, 0.0, 0.0, 2.0], [1.0, 1.0], [-1.5, 0.5, 0.5, 3.0]):
            qs = sorted({q for t in ths for q in (t - 0.5, t, t + 0.5)} | {-100.0, 0.0, 100.0})
            for q in qs:
                if "char" in inst or "int" in inst or "long" in inst or "short" in inst:
                    if q != int(q):
                        continue            # integral query types are exercised with integral values only (their narrowing is R-C20-1's business)
                try:
                    got = _bin_eval(f, ths, q)
                except _BinUnknown as e:
                    unknown = str(e)
                    break
                want = len([t for t in ths if t <= q])
                if got != want:
                    bad = "thresholds %s, query %s: bin() returns %s, the counting rule of update() puts the value in bin %d" % (ths, q, got, want)
                    break
            if bad or unknown:
                break
        if unknown and not bad:
            R.incomplete("R-C20-2", inst + " lookup rule", f.loc(), "cannot execute bin(): %s" % unknown)
        else:
            R.check(bad is None, "R-C20-2", inst + " lookup rule", f.loc(), "bin(v) = number of thresholds <= v, also for duplicated thresholds, below the first and beyond the last one",
                    "bin() disagrees with the counting rule: %s" % bad)


class _BinUnknown(Exception):
    pass


def _bin_eval(f, ths, q):
    """concrete execution of histogram_t::bin on the sorted threshold list `ths` and the query `q`"""
    import bisect
    env = {f.params[0]["d"]: q}

    class Ret(Exception):
        def __init__(self, v):
            self.v = v

    def ev(n):
        n = skip(n)
        k = n["k"]
        if k == "paren":
            return ev(n["c"][0])
        if k == "cast":
            v = ev(n["c"][0])
            t = (n.get("t") or "")
            if n.get("ck") == "FloatingToIntegral" or (isinstance(v, float) and any(x in t for x in ("int", "long", "short", "char")) and "*" not in t and "double" not in t and "float" not in t):
                return int(v)
            return v
        if k in ("int", "float"):
            return n["v"]
        if k == "bool":
            return bool(n["v"])
        if k == "ref":
            if n.get("d") in env:
                return env[n["d"]]
            raise _BinUnknown("variable " + str(n.get("n")))
        if k == "mem" and n.get("n") == "m_thresholds":
            return ("arr",)
        if k == "un" and n.get("op") == "*":
            p_ = ev(n["c"][0])
            if isinstance(p_, tuple) and p_[0] == "ptr" and 0 <= p_[1] < len(ths):
                return ths[p_[1]]
            raise _BinUnknown("dereference outside the thresholds")
        if k == "un" and n.get("op") == "!":
            return not ev(n["c"][0])
        if k == "un" and n.get("op") == "-":
            return -ev(n["c"][0])
        if k == "cond":
            return ev(n["c"][1]) if ev(n["c"][0]) else ev(n["c"][2])
        if k == "bin":
            op = n["op"]
            if op == "&&":
                return bool(ev(n["c"][0])) and bool(ev(n["c"][1]))
            if op == "||":
                return bool(ev(n["c"][0])) or bool(ev(n["c"][1]))
            a_, b_ = ev(n["c"][0]), ev(n["c"][1])
            pa, pb = isinstance(a_, tuple), isinstance(b_, tuple)
            if pa and pb:
                if op in ("==", "!=", "<", "<="):
                    return {"==": a_[1] == b_[1], "!=": a_[1] != b_[1], "<": a_[1] < b_[1], "<=": a_[1] <= b_[1]}[op]
                if op == "-":
                    return a_[1] - b_[1]
            if pa and not pb and op in ("+", "-"):
                return ("ptr", a_[1] + (b_ if op == "+" else -b_))
            if pb and not pa and op == "+":
                return ("ptr", b_[1] + a_)
            if not pa and not pb and op in ("==", "!=", "<", "<=", "+", "-", "*", "/"):
                return {"==": lambda: a_ == b_, "!=": lambda: a_ != b_, "<": lambda: a_ < b_, "<=": lambda: a_ <= b_, "+": lambda: a_ + b_, "-": lambda: a_ - b_,
                        "*": lambda: a_ * b_, "/": lambda: a_ / b_}[op]()
            raise _BinUnknown("operator " + op)
        if k == "call":
            cq = callee(n)
            short_ = cq.split("::")[-1].split("<")[0]
            ar = args(n)
            if short_ in ("begin", "cbegin", "end", "cend", "data") and (len(ar) == 1 or (n.get("ck") == "mem" and not ar)):
                o_ = ev(ar[0] if len(ar) == 1 else n["c"][0])
                if o_ == ("arr",):
                    return ("ptr", 0 if short_ in ("begin", "cbegin", "data") else len(ths))
            if cq in ("std::upper_bound", "std::lower_bound") and len(ar) == 3:
                b_, e_, v_ = ev(ar[0]), ev(ar[1]), ev(ar[2])
                if isinstance(b_, tuple) and isinstance(e_, tuple):
                    sl = ths[b_[1]:e_[1]]
                    pos = bisect.bisect_right(sl, v_) if cq.endswith("upper_bound") else bisect.bisect_left(sl, v_)
                    return ("ptr", b_[1] + pos)
            if cq == "std::distance" and len(ar) == 2:
                b_, e_ = ev(ar[0]), ev(ar[1])
                return e_[1] - b_[1]
            if cq in ("std::next", "std::prev") and len(ar) in (1, 2):
                p_ = ev(ar[0])
                k_ = ev(ar[1]) if len(ar) == 2 else 1
                return ("ptr", p_[1] + (k_ if cq == "std::next" else -k_))
            if short_ == "bins" and not ar:
                return len(ths) + 1
            if short_ == "size" and not ar and n.get("ck") == "mem" and ev(n["c"][0]) == ("arr",):
                return len(ths)
            raise _BinUnknown("call " + pp(n)[:50])
        raise _BinUnknown(k + " " + pp(n)[:40])

    def run(st):
        if st is None:
            return
        k = st["k"]
        if k == "block":
            for c_ in st.get("c", ()):
                run(c_)
        elif k == "declstmt":
            for v in st.get("c", ()):
                if v is not None and v["k"] == "var" and v.get("c"):
                    env[v["d"]] = ev(v["c"][0])
        elif k == "if":
            r = st["r"]
            if "init" in r and st["c"][r.index("init")] is not None:
                run(st["c"][r.index("init")])
            if ev(st["c"][r.index("cond")]):
                run(st["c"][r.index("then")])
            elif "else" in r:
                run(st["c"][r.index("else")])
        elif k == "return":
            raise Ret(ev(st["c"][0]))
        elif k in ("for", "while"):
            r = st["r"]
            if "init" in r and st["c"][r.index("init")] is not None:
                run(st["c"][r.index("init")])
            guard = 0
            while ev(st["c"][r.index("cond")]):
                run(st["c"][r.index("body")])
                if "inc" in r and st["c"][r.index("inc")] is not None:
                    run(st["c"][r.index("inc")])
                guard += 1
                if guard > 64:
                    raise _BinUnknown("loop does not terminate on the test instance")
        elif k == "un" and st.get("op") in ("++", "--"):
            d_ = ref_decl(st["c"][0])
            v = env.get(d_)
            delta = 1 if st["op"] == "++" else -1
            env[d_] = ("ptr", v[1] + delta) if isinstance(v, tuple) else v + delta
        elif assignment(st):
            a_ = assignment(st)
            d_ = ref_decl(a_[0])
            v = ev(a_[1])
            if a_[2] == "=":
                env[d_] = v
            else:
                old = env[d_]
                env[d_] = {"+=": lambda: (("ptr", old[1] + v) if isinstance(old, tuple) else old + v), "-=": lambda: (("ptr", old[1] - v) if isinstance(old, tuple) else old - v)}[a_[2]]()
        else:
            ev(st)
    try:
        run(f.body)
    except Ret as r_:
        return r_.v
    except (KeyError, TypeError, IndexError) as e:
        raise _BinUnknown(repr(e))
    raise _BinUnknown("no return reached")


class _PctUnknown(Exception):
    pass


def _pct_eval(F, f, values):
    """Concrete evaluation of one percentile entry point on Python numbers and list iterators. std::nth_element is modelled by its contract
    only - the selected position holds the k-th order statistic, everything before is not larger, everything after not smaller - and
    arranges both sides in *descending* order, the least helpful arrangement the contract allows: code that relies on more than the contract
    (the element after the selected one being the next order statistic, say) is exposed."""
    import math

    class Ret(Exception):
        def __init__(self, v):
            self.v = v

    def is_it(v):
        return isinstance(v, tuple) and len(v) == 3 and v[0] == "it"

    def call_fn(g, vals, depth):
        if depth > 8:
            raise _PctUnknown("recursion")
        env = {}
        for p_, v_ in zip(g.params, vals):
            env[p_["d"]] = v_
        try:
            ex(g.body, env, depth)
        except Ret as r:
            return r.v
        return None

    def call_lambda(lam, vals, depth):
        node, cap = lam[1], lam[2]
        bodies = F.by_lid.get(node.get("lid"), [])
        if not bodies:
            raise _PctUnknown("lambda body not found")
        g = bodies[0]
        env = dict(cap)
        for p_, v_ in zip(g.params, vals):
            env[p_["d"]] = v_
        try:
            ex(g.body, env, depth + 1)
        except Ret as r:
            return r.v
        return None

    def ev(n, env, depth):
        n = skip(n)
        if n is None:
            raise _PctUnknown("empty expression")
        k = n["k"]
        c = n.get("c", ())
        if k == "paren":
            return ev(c[0], env, depth)
        if k == "cast":
            if n.get("ck") == "ToVoid":
                return None
            v = ev(c[0], env, depth)
            t = (n.get("t") or "").replace("const ", "")
            if isinstance(v, float) and t in ("long", "int", "unsigned long", "unsigned int", "long long", "std::ptrdiff_t", "short"):
                return int(v)
            if isinstance(v, int) and not isinstance(v, bool) and t in ("double", "float"):
                return float(v)
            return v
        if k in ("int", "float"):
            return n["v"]
        if k == "bool":
            return bool(n["v"])
        if k == "ref":
            if n.get("d") in env:
                return env[n["d"]]
            raise _PctUnknown("variable `%s`" % n.get("n"))
        if k == "construct" and len(c) == 1:
            return ev(c[0], env, depth)
        if k == "lambda":
            cap = {}
            inits = list(c)
            for cp in n.get("caps", []):
                if cp.get("init"):
                    cap[cp["d"]] = ev(inits.pop(0), env, depth) if inits else None
                elif cp.get("d") in env:
                    cap[cp["d"]] = env[cp["d"]]
            return ("lam", n, cap)
        if k == "cond":
            return ev(c[1], env, depth) if ev(c[0], env, depth) else ev(c[2], env, depth)
        if k == "un":
            op = n.get("op")
            if op in ("++", "--"):
                t = skip(c[0])
                old = ev(t, env, depth)
                new = ("it", old[1], old[2] + (1 if op == "++" else -1)) if is_it(old) else old + (1 if op == "++" else -1)
                if t["k"] != "ref":
                    raise _PctUnknown(pp(n))
                env[t["d"]] = new
                return old if n.get("post") else new
            v = ev(c[0], env, depth)
            if op == "*" and is_it(v):
                return deref(v)
            if op == "-":
                return -v
            if op == "!":
                return not v
            raise _PctUnknown(pp(n)[:40])
        if k == "bin":
            op = n["op"]
            if op == "&&":
                return bool(ev(c[0], env, depth)) and bool(ev(c[1], env, depth))
            if op == "||":
                return bool(ev(c[0], env, depth)) or bool(ev(c[1], env, depth))
            if op == "=":
                t = skip(c[0])
                v = ev(c[1], env, depth)
                if t["k"] == "ref":
                    env[t["d"]] = v
                    return v
                raise _PctUnknown(pp(n)[:40])
            a_, b_ = ev(c[0], env, depth), ev(c[1], env, depth)
            return arith(op, a_, b_, n)
        if k == "call":
            q = callee(n)
            if n.get("ck") == "op":
                op = n.get("op")
                if op == "()":
                    base = ev(c[0], env, depth)
                    if isinstance(base, tuple) and base and base[0] == "lam":
                        return call_lambda(base, [ev(x, env, depth) for x in c[1:]], depth)
                    raise _PctUnknown(pp(n)[:40])
                if op == "*" and len(c) == 1:
                    return deref(ev(c[0], env, depth))
                if op in ("++", "--") and c:
                    t = skip(c[0])
                    old = ev(t, env, depth)
                    if t["k"] != "ref" or not is_it(old):
                        raise _PctUnknown(pp(n)[:40])
                    env[t["d"]] = ("it", old[1], old[2] + (1 if op == "++" else -1))
                    return old if len(c) > 1 else env[t["d"]]
                if len(c) == 2:
                    return arith(op, ev(c[0], env, depth), ev(c[1], env, depth), n)
                raise _PctUnknown(pp(n)[:40])
            a = [x for x in args(n)]
            if q == "std::distance":
                x, y = ev(a[0], env, depth), ev(a[1], env, depth)
                return y[2] - x[2]
            if q == "std::advance":
                t = skip(a[0])
                it_ = ev(t, env, depth)
                if t["k"] != "ref" or not is_it(it_):
                    raise _PctUnknown(pp(n)[:40])
                env[t["d"]] = ("it", it_[1], it_[2] + int(ev(a[1], env, depth)))
                return None
            if q in ("std::next", "std::prev"):
                it_ = ev(a[0], env, depth)
                d_ = int(ev(a[1], env, depth)) if len(a) > 1 else 1
                return ("it", it_[1], it_[2] + (d_ if q == "std::next" else -d_))
            if q == "std::nth_element":
                b_, m_, e_ = (ev(x, env, depth) for x in a[:3])
                lst = b_[1]
                if not (b_[2] <= m_[2] < e_[2] <= len(lst)):
                    raise _PctUnknown("nth_element(%d, %d, %d) on %d elements" % (b_[2], m_[2], e_[2], len(lst)))
                seg = sorted(lst[b_[2]:e_[2]])
                kk = m_[2] - b_[2]
                lst[b_[2]:e_[2]] = seg[:kk][::-1] + [seg[kk]] + seg[kk + 1:][::-1]
                return None
            if q in ("std::sort",):
                b_, e_ = ev(a[0], env, depth), ev(a[1], env, depth)
                b_[1][b_[2]:e_[2]] = sorted(b_[1][b_[2]:e_[2]])
                return None
            if q in ("std::partial_sort",):
                b_, m_, e_ = (ev(x, env, depth) for x in a[:3])
                seg = sorted(b_[1][b_[2]:e_[2]])
                kk = m_[2] - b_[2]
                b_[1][b_[2]:e_[2]] = seg[:kk] + seg[kk:][::-1]
                return None
            if q in ("std::floor", "floor"):
                return float(math.floor(ev(a[0], env, depth)))
            if q in ("std::ceil", "ceil"):
                return float(math.ceil(ev(a[0], env, depth)))
            if q in ("std::is_sorted",):
                return True
            if q in ("std::min", "std::max") and len(a) == 2:
                x, y = ev(a[0], env, depth), ev(a[1], env, depth)
                return min(x, y) if q == "std::min" else max(x, y)
            tg = F.resolve(n)
            if tg and not q.startswith("std::"):
                return call_fn(tg[0], [ev(x, env, depth) for x in a], depth + 1)
            raise _PctUnknown("call of " + q)
        raise _PctUnknown(pp(n)[:50])

    def deref(v):
        if not is_it(v) or not 0 <= v[2] < len(v[1]):
            raise _PctUnknown("dereference outside the range (position %s of %d)" % (v[2] if is_it(v) else "?", len(v[1]) if is_it(v) else 0))
        return v[1][v[2]]

    def arith(op, a_, b_, n):
        if is_it(a_) and is_it(b_):
            if op == "-":
                return a_[2] - b_[2]
            if op in ("==", "!=", "<", "<="):
                return {"==": a_[2] == b_[2], "!=": a_[2] != b_[2], "<": a_[2] < b_[2], "<=": a_[2] <= b_[2]}[op]
        if is_it(a_) and not is_it(b_) and op in ("+", "-"):
            return ("it", a_[1], a_[2] + (int(b_) if op == "+" else -int(b_)))
        if a_ is None or b_ is None or is_it(a_) or is_it(b_):
            raise _PctUnknown(pp(n)[:50])
        if op == "/":
            if isinstance(a_, int) and isinstance(b_, int):
                if b_ == 0:
                    raise _PctUnknown("division by zero")
                q_ = abs(a_) // abs(b_)
                return q_ if (a_ >= 0) == (b_ >= 0) else -q_
            return a_ / b_
        table = {"+": lambda: a_ + b_, "-": lambda: a_ - b_, "*": lambda: a_ * b_, "<": lambda: a_ < b_, "<=": lambda: a_ <= b_, "==": lambda: a_ == b_,
                 "!=": lambda: a_ != b_, ">": lambda: a_ > b_, ">=": lambda: a_ >= b_}
        if op not in table:
            raise _PctUnknown(pp(n)[:50])
        return table[op]()

    def ex(s_, env, depth):
        if s_ is None:
            return
        k = s_["k"]
        if k == "block":
            for x in s_.get("c", ()):
                ex(x, env, depth)
        elif k == "declstmt":
            for v in s_.get("c", ()):
                if v is not None and v["k"] == "var":
                    env[v["d"]] = ev(v["c"][0], env, depth) if v.get("c") else 0
        elif k == "if":
            r = s_["r"]
            if "init" in r:
                ex(s_["c"][r.index("init")], env, depth)
            if ev(s_["c"][r.index("cond")], env, depth):
                ex(s_["c"][r.index("then")], env, depth)
            elif "else" in r:
                ex(s_["c"][r.index("else")], env, depth)
        elif k == "return":
            raise Ret(ev(s_["c"][0], env, depth) if s_.get("c") else None)
        else:
            ev(s_, env, depth)

    return call_fn(f, values, 0)


def _percentile_end_to_end(F, R):
    """percentile / percentile_sorted / median / median_sorted evaluated on concrete lists against the sorted-array definition"""
    lists = [[4.0], [2.0, 1.0], [5.0, 1.0, 4.0, 2.0, 3.0, 9.0, 7.0, 8.0, 6.0, 0.0], [3.0, 1.0, 3.0, 2.0, 1.0, 3.0, 2.0],
             [12.0, 0.5, 7.25, 3.0, 9.5, 1.0, 6.5, 4.125, 11.0, 2.0, 8.0, 10.0], [float((7 * i) % 26) for i in range(26)]]
    pcts = (0.0, 10.0, 25.0, 28.0, 33.0, 50.0, 75.0, 90.0, 100.0)

    def reference(vals, p):
        import math
        s_ = sorted(vals)
        pos = p * (len(s_) - 1) / 100.0
        lo, hi = int(math.floor(pos)), int(math.ceil(pos))
        return s_[lo] if lo == hi else (s_[lo] + s_[hi]) / 2

    decided = True
    for name in ("nano::percentile", "nano::percentile_sorted", "nano::median", "nano::median_sorted"):
        fs = [f for f in F.functions.values() if f.qn == name and f.relfile == FILES[0] and "double" in f.key]
        fs = fs or [f for f in F.functions.values() if f.qn == name and f.relfile == FILES[0]]
        short = name.split("::")[-1]
        if not fs:
            R.incomplete("R-C20-3", short + " value", FILES[0] + ":1", "no instantiation of %s in view" % name)
            decided = False
            continue
        f = fs[0]
        bad = None
        n = 0
        try:
            for vals in lists:
                for p in (pcts if "percentile" in short else (50.0,)):
                    lst = sorted(vals) if short.endswith("sorted") else list(vals)
                    a = [("it", lst, 0), ("it", lst, len(lst))] + ([p] if "percentile" in short else [])
                    got = _pct_eval(F, f, a)
                    want = reference(vals, p)
                    n += 1
                    if got is None or abs(float(got) - want) > 1e-12:
                        bad = "%s of %s%s evaluates to %s, the sorted-array definition gives %s" % (short, vals, " at %g%%" % p if "percentile" in short else "", got, want)
                        break
                if bad:
                    break
        except _PctUnknown as e:
            R.incomplete("R-C20-3", short + " value", f.loc(), "cannot evaluate %s: %s" % (short, e))
            decided = False
            continue
        R.check(bad is None, "R-C20-3", short + " value", f.loc(),
                "equals the sorted-array definition (value at p(n-1)/100, midpoint of the two neighbours when fractional) on %d list x percentage cases; nth_element "
                "modelled by its contract only, with the least helpful arrangement it allows" % n,
                "%s%s" % (bad, "" if short.endswith("sorted") else " (std::nth_element guarantees the selected position only: what lies after it is not smaller, in no particular order)"))
    return decided


def rule_percentile(F, R):
    fs = [f for f in F.functions.values() if f.qn == "nano::detail::percentile" and f.relfile == FILES[0]]
    R.floor("R-C20-3", len(fs), 3, "percentile instantiations")
    seen = 0
    for f in fs:
        inst = "detail::percentile@%d" % seen
        if seen >= 2:
            break
        seen += 1
        vars_ = {n["n"]: n for n in f.nodes() if n["k"] == "var"}
        need = ("size", "position", "lpos", "rpos")
        if any(v not in vars_ for v in need):
            # locals renamed: identify by shape instead
            R.incomplete("R-C20-3", inst, f.loc(), "cannot identify the position variables")
            continue
        z, det = kalg.compare_expr(f, vars_["position"]["c"][0], "percentage*(size-1)/100", atoms={"distance(begin, end)": "size"}, seed=R.seed)
        if z is None:
            R.incomplete("R-C20-3", inst + " position", f.loc(vars_["position"]), det)
        else:
            R.check(z, "R-C20-3", inst + " position", f.loc(vars_["position"]), "position = p*(n-1)/100", "percentile position is not p*(n-1)/100: " + det)
        # floating point: an integral position must come out exactly integral, so the (exact) product p*(n-1) is formed first and divided
        # by 100 last; (p/100)*(n-1) rounds p/100 first and lands one ulp off integral positions (midpoint of two neighbours instead of the value)
        def op_tree(n, depth=0):
            n = skip(n)
            while n is not None and n["k"] == "cast":
                n = skip(n["c"][0])
            if n is None:
                return "?"
            if n["k"] == "bin" and n["op"] in ("*", "/", "+", "-"):
                return (n["op"], op_tree(n["c"][0], depth + 1), op_tree(n["c"][1], depth + 1))
            if n["k"] == "ref" and n.get("dk") == "var" and depth < 6:
                v_, _ = find_var(f, n["d"])
                if v_ is not None and v_.get("c") and v_["n"] not in ("size",):
                    return op_tree(v_["c"][0], depth + 1)
            if n["k"] in ("int", "float"):
                return float(n["v"])
            return pp(n)
        tree = op_tree(vars_["position"]["c"][0])
        prod = tree[1] if isinstance(tree, tuple) and tree[0] == "/" and tree[2] == 100.0 else None
        oko = isinstance(prod, tuple) and prod[0] == "*" and sorted(map(str, prod[1:])) == sorted(["percentage", str(("-", "size", 1.0))])
        R.check(bool(oko), "R-C20-3", inst + " operation order", f.loc(vars_["position"]), "the division by 100 is applied last, to the product p*(n-1)",
                "the position is evaluated as %s: dividing before multiplying rounds p/100 first, so mathematically integral positions come out one ulp off and the midpoint of two "
                "neighbours is returned instead of the value at that position (e.g. p=28, n=26)" % (tree,))
    # the value itself: end-to-end evaluation of the four entry points (replaces the comparisons of the neighbour / result / from_position
    # expressions' text, which reported a correct "select once" refactoring of the sorted variant together with the incorrect one of the unsorted)
    _percentile_end_to_end(F, R)


def rule_sorted(F, R):
    """R-C20-5: upper_bound in update()/bin() is only meaningful on sorted ranges: every constructor path reaches update() with the
    values and the thresholds sorted (std::sort, or the true edge of std::is_sorted), and nothing else writes the thresholds."""
    from ..cfg import must_dataflow
    from ..util import strip_not, writes_in, member_path
    ctors = [f for f in F.functions.values() if f.cls == "nano::histogram_t" and f.raw.get("ctor") and f.relfile == FILES[1] and
             f.calls(lambda x: callee(x) == "nano::histogram_t::update")]
    R.floor("R-C20-5", len(ctors), 2, "histogram constructors calling update()")

    def which(f, a, b):
        ta, tb = pp(a), pp(b)
        if len(f.params) >= 2 and (ta, tb) == (f.params[0]["n"], f.params[1]["n"]):
            return "values"
        if ta in ("begin(m_thresholds)", "m_thresholds.begin()") and tb in ("end(m_thresholds)", "m_thresholds.end()"):
            return "thresholds"
        return None

    for f in ctors:
        cfg = f.cfg

        def telem(facts, e, f=f):
            if e.kind != "node":
                return
            n = e.node
            if n["k"] == "call" and callee(n) in ("std::sort", "std::stable_sort") and len(args(n)) == 2:
                w = which(f, *args(n))
                if w:
                    facts.add(w)

        def tedge(facts, b, k, f=f):
            if b.cond is None or len(b.succ) != 2:
                return
            c, neg = strip_not(b.cond)
            c = skip(c)
            if c["k"] == "call" and callee(c) == "std::is_sorted" and len(args(c)) == 2:
                w = which(f, *args(c))
                if w and ((k == 0) != bool(neg)):
                    facts.add(w)

        IN, before = must_dataflow(cfg, set(), telem, tedge)
        for u in f.calls(lambda x: callee(x) == "nano::histogram_t::update"):
            w = cfg.where_enclosing(u)
            facts = before(*w) if w else None
            inst = "ctor@%s" % f.loc()
            if facts is None:
                R.incomplete("R-C20-5", inst, f.loc(u), "update() call not found in the CFG")
                continue
            missing = [x for x in ("values", "thresholds") if x not in facts]
            R.check(not missing, "R-C20-5", inst, f.loc(u), "values and thresholds are sorted on every path to update()",
                    "update() (binary search per threshold) can be reached with unsorted %s: bin counts and bin lookups are wrong for such inputs" % " and ".join(missing))
    # who may write the thresholds
    writers = set()
    for f in F.functions.values():
        if f.cls != "nano::histogram_t" or f.relfile != FILES[1] or f.raw.get("ctor"):
            continue
        for tgt, kind, site in writes_in(f, f.body):
            if member_path(tgt) == "m_thresholds":
                writers.add("%s (%s)" % (f.qn, f.loc(site)))
    R.check(not writers, "R-C20-5", "thresholds writers", FILES[1] + ":1", "only constructors write m_thresholds (they stay sorted)",
            "m_thresholds is modified outside the constructors: %s" % sorted(writers)[:3])


def rule_bin_statistics(F, R):
    """R-C20-6: the three per-bin statistics keep their identity from the place they are computed to the place they are read: update_bin
    stores the element count in one member, the mean (the helper that accumulates and divides by the count) in a second and the median
    (median_sorted over the bin's range) in a third, over the same [begin, end) it was given; the vector accessor and the per-bin accessor
    of each statistic return that very member."""
    hs = [f for f in F.functions.values() if f.cls == "nano::histogram_t" and f.relfile == FILES[1] and f.body is not None]
    ubs = [f for f in hs if f.name == "update_bin"]
    if not ubs:
        raise AnalysisBroken("histogram_t::update_bin not found")
    f = ubs[0]
    role = {}
    for x in f.nodes():
        a_ = assignment(x)
        if not a_ or a_[2] != "=":
            continue
        l = skip(a_[0])
        if not (l["k"] == "call" and l.get("op") == "()" and skip(l["c"][0])["k"] == "mem" and pp(l["c"][1]) == f.params[2]["n"]):
            continue
        mem = skip(l["c"][0])["n"]
        r = skip(a_[1])
        while r["k"] == "cast" and r.get("c"):
            r = skip(r["c"][0])
        if r["k"] == "ref":
            v, _ = find_var(f, r.get("d"))
            r2 = skip(v["c"][0]) if v is not None and v.get("c") else r
            while r2["k"] == "cast" and r2.get("c"):
                r2 = skip(r2["c"][0])
            if r2["k"] == "call" and callee(r2) == "std::distance":
                role.setdefault(mem, set()).add("count")
        elif r["k"] == "call":
            cq = callee(r).split("::")[-1].split("<")[0]
            rng = [pp(x_) for x_ in args(r)[:2]] == [f.params[0]["n"], f.params[1]["n"]]
            if cq == "mean" and rng:
                role.setdefault(mem, set()).add("mean")
            elif cq in ("median_sorted", "median") and rng:
                role.setdefault(mem, set()).add("median")
            elif cq == "quiet_NaN":
                role.setdefault(mem, set()).add("nan")
            else:
                role.setdefault(mem, set()).add("other:" + pp(r)[:30])
    by_role = {}
    for mem, rs in role.items():
        for r_ in rs - {"nan"}:
            by_role.setdefault(r_, set()).add(mem)
    ok = all(len(by_role.get(k, ())) == 1 for k in ("count", "mean", "median")) and len({next(iter(by_role[k])) for k in ("count", "mean", "median") if by_role.get(k)}) == 3 and \
        not any(k.startswith("other") for k in by_role)
    R.check(ok, "R-C20-6", "update_bin", f.loc(), "count, mean and median of the bin's own range are stored in three distinct members",
            "update_bin stores %s" % {k: sorted(v) for k, v in sorted(by_role.items())})
    if not ok:
        return
    member = {k: next(iter(v)) for k, v in by_role.items()}
    n = 0
    for stat, (vec, one) in {"count": ("counts", "count"), "mean": ("means", "mean"), "median": ("medians", "median")}.items():
        for name, indexed in ((vec, False), (one, True)):
            gs = [g for g in hs if g.name == name and g.is_const and len(g.params) == (1 if indexed else 0)]
            for g in gs[:1]:
                rets = [x for x in g.nodes() if x["k"] == "return" and x.get("c")]
                got = None
                if len(rets) == 1:
                    e = skip(rets[0]["c"][0])
                    while e["k"] == "cast" and e.get("c"):
                        e = skip(e["c"][0])
                    if indexed and e["k"] == "call" and e.get("op") == "()" and skip(e["c"][0])["k"] == "mem" and ref_decl(e["c"][1]) == g.params[0]["d"]:
                        got = skip(e["c"][0])["n"]
                    elif not indexed and e["k"] == "mem":
                        got = e["n"]
                n += 1
                R.check(got == member[stat], "R-C20-6", "%s(%s)" % (name, "bin" if indexed else ""), g.loc(), "returns the member update_bin fills with the bin's %s" % stat,
                        "%s(%s) returns `%s`, but the bin's %s is stored in `%s`" % (name, "bin" if indexed else "", pp(rets[0]["c"][0])[:40] if rets else "?", stat, member[stat]))
    R.floor("R-C20-6", n, 6, "accessors of the per-bin statistics")


def run(ctx):
    R = ctx.report
    F = ctx.facts(TUS)
    rule_lossy(F, R)
    rule_counting(F, R)
    rule_percentile(F, R)
    rule_sorted(F, R)
    rule_bin_statistics(F, R)
    from . import c11_stats
    c11_stats.rule_stats_table(F, R, "R-C20-4")
