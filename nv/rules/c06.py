"""C06 - values, gradients and convexity flags of functions and losses are truthful (DESIGN 3, C06)."""
import random
import re

import sympy as sp

from ..facts import AnalysisBroken, walk, strip_targs
from ..pp import pp, skip
from ..util import (args, assignment, callee, incdec, is_call, obj, strip_not, literal_value, find_var, parameter_name, writes_in,
                    root_of, unwrap_view)
from ..util import ref_decl_v as ref_decl
from .. import kalg
from ..symexec import Interp, Samples, is_arr
from ..kalg import OutOfFragment, sym
from . import c05
from . import c09

META = {
    "level": "other",
    "technique": "bounded symbolic interpretation of the extracted value/gradient kernels (n = 3 outputs, branches merged into piecewise expressions) compared by differentiation, midpoint-convexity refutation on exact rationals, backward slicing for value/gradient non-interference, structural backing of strong-convexity claims",
    "explanation": "Decides on the extracted kernels, without running libnano: for every loss kernel (mae, mse, cauchy, hinge, squared hinge, "
                   "savage, tangent, exponential, logistic, class negative log-likelihood, pinball) the gradient routine equals the "
                   "derivative of the value routine in the 3-output instance (loops unrolled, label tests and branch conditions kept "
                   "as piecewise conditions, so e.g. a label handled differently in value and gradient is refuted); kernels declared "
                   "convex pass a midpoint-convexity refutation test; the value and gradient of sample i depend only on sample i; for the "
                   "benchmark functions that are inside the fragment the same derivative check is applied to do_vgrad, and for every "
                   "do_vgrad the statements guarded by the gradient-requested test do not flow into the returned value; constraint "
                   "gradients are derivatives of their values (shared with C05); a non-zero strong-convexity declaration must be "
                   "backed by a quadratic term over the whole argument (this finds the over-claimed coefficient of the linear "
                   "objective, recorded as a known finding).",
    "not_decided": "gradients and convexity of benchmark functions outside the fragment (matrix data members, data-dependent loops); "
                   "non-negativity of losses; agreement of the 0-1 errors with arg-max; ML objectives' gradients (C09)",
    "assumptions": ["n = 3 instance of the kernels (necessary condition)", "identities are tested at random exact rational points away from kinks"],
}

TUS = ["src/loss.cpp", "src/loss/pinball.cpp", "src/function.cpp", "src/function/constraint.cpp", "src/linear/function.cpp",
       "src/function/penalty.cpp", "src/gboost/function.cpp", "src/linear/util.cpp", "src/linear/accumulator.cpp"]
N = 3


def numeric_equal(e1, e2, syms, rnd, points=12, tol=1e-25, domain=None):
    """compare two expressions at random rational points; returns (ok, witness)"""
    tried = 0
    for _ in range(points * 6):
        if tried >= points:
            break
        pt = {}
        for s in syms:
            if domain and s.name in domain:
                pt[s] = domain[s.name](rnd)
            else:
                pt[s] = sp.Rational(rnd.randint(-3000, 3000), rnd.randint(7, 997))
        for s in syms:
            if s.name == "omax":     # the shift of a log-sum-exp is the largest output
                outs = [v for k_, v in pt.items() if k_.name.startswith("o") and k_.name[1:].isdigit()]
                if outs:
                    pt[s] = max(outs)
        try:
            v1 = sp.N(e1.subs(pt), 50)
            v2 = sp.N(e2.subs(pt), 50)
        except Exception:
            continue
        if not (v1.is_number and v2.is_number) or v1.has(sp.nan, sp.zoo) or v2.has(sp.nan, sp.zoo) or not v1.is_real or not v2.is_real:
            continue
        tried += 1
        if abs(v1 - v2) > tol * (1 + abs(v1)):
            return False, "at %s: %s vs %s" % ({str(k): str(v) for k, v in list(pt.items())[:6]}, sp.N(v1, 8), sp.N(v2, 8))
    if tried < max(3, points // 3):
        return None, "could not evaluate at enough points"
    return True, ""


def kernel_functions(F):
    """{kernel struct name: {'value': f, 'vgrad': f}} from include/nano/loss/flatten.h (one instantiation each)"""
    out = {}
    for f in F.functions.values():
        if f.relfile != "include/nano/loss/flatten.h" or not f.cls or not f.cls.startswith("nano::detail::"):
            continue
        if f.name in ("value", "vgrad"):
            out.setdefault(f.cls.split("::")[-1], {}).setdefault(f.name, f)
    return out


def declared_flags(F):
    """kernel struct -> (convex, smooth) from the flatten_loss_t constructors"""
    flags = {}
    for f in F.functions.values():
        if f.qn == "nano::flatten_loss_t::flatten_loss_t" and f.raw.get("ctor") == "other":
            m = re.search(r"nano::detail::(\w+)<", f.key)
            if not m:
                continue
            d = {}
            for c in f.calls(lambda x: callee(x) in ("nano::loss_t::convex", "nano::loss_t::smooth")):
                a = skip(args(c)[0])
                while a["k"] == "cast":
                    a = skip(a["c"][0])
                if a["k"] == "ref" and "cv" in a:
                    d[callee(c).split("::")[-1]] = bool(a["cv"])
            flags[m.group(1)] = d
    return flags


def rule_loss_kernels(F, R):
    rnd = random.Random(4242 + R.seed)
    kernels = kernel_functions(F)
    flags = declared_flags(F)
    T = [sym("t%d" % i) for i in range(N)]
    O = [sym("o%d" % i) for i in range(N)]
    n = 0
    for name, fs in sorted(kernels.items()):
        if "value" not in fs or "vgrad" not in fs:
            continue
        inst = "loss kernel " + name
        fv, fg = fs["value"], fs["vgrad"]
        try:
            iv = Interp(F, fv, n=N)
            iv.allow_shift = True
            iv.env[fv.params[0]["d"]] = list(T)
            iv.env[fv.params[1]["d"]] = list(O)
            V = iv.run()
            ig = Interp(F, fg, n=N)
            ig.allow_shift = True
            G = [sym("g%d" % i) for i in range(N)]
            ig.env[fg.params[0]["d"]] = list(T)
            ig.env[fg.params[1]["d"]] = list(O)
            ig.env[fg.params[2]["d"]] = G
            ig.run()
        except OutOfFragment as e:
            R.incomplete("R-C06-2", inst, fv.loc(), "kernel outside the fragment: %s" % e)
            continue
        n += 1
        syms = sorted((set().union(*[sp.sympify(g).free_symbols for g in G]) | sp.sympify(V).free_symbols), key=lambda s: s.name)
        bad = None
        for j in range(N):
            dV = sp.diff(V, O[j])
            ok, wit = numeric_equal(dV, sp.sympify(G[j]), syms, rnd, domain={"tiny_eps": lambda r: sp.Rational(1, 10 ** 40)})
            if ok is None:
                bad = ("?", wit)
                break
            if not ok:
                bad = (j, wit)
                break
        if bad and bad[0] == "?":
            R.incomplete("R-C06-2", inst, fv.loc(), bad[1])
        else:
            R.check(bad is None, "R-C06-2", inst, fg.loc(), "vgrad = d value / d output for all %d outputs (labels and branch conditions kept symbolic)" % N,
                    "the gradient routine is not the derivative of the value routine: d value/d output(%s) differs from vgrad(%s) %s" % (
                        bad[0] if bad else "", bad[0] if bad else "", bad[1] if bad else ""))
        # declared convexity: midpoint-convexity refutation along random segments, labels fixed per segment
        if flags.get(name, {}).get("convex"):
            okc, witc = True, ""
            osyms = O
            others = [s for s in sp.sympify(V).free_symbols if s not in osyms]
            for _ in range(40):
                fixed = {}
                for s in others:
                    if s.name == "tiny_eps":
                        fixed[s] = sp.Rational(1, 10 ** 40)
                    elif s.name.startswith("t"):
                        fixed[s] = sp.Integer(rnd.choice([-1, 1])) if rnd.random() < 0.7 else sp.Rational(rnd.randint(-300, 300), 97)
                    else:
                        fixed[s] = sp.Rational(rnd.randint(-300, 300), 97)
                a = {s: sp.Rational(rnd.randint(-4000, 4000), rnd.randint(11, 499)) for s in osyms}
                b = {s: sp.Rational(rnd.randint(-4000, 4000), rnd.randint(11, 499)) for s in osyms}
                mid = {s: (a[s] + b[s]) / 2 for s in osyms}
                try:
                    va, vb, vm = (sp.N(V.subs(fixed).subs(p), 60) for p in (a, b, mid))
                except Exception:
                    continue
                if not (va.is_real and vb.is_real and vm.is_real):
                    continue
                if vm > (va + vb) / 2 + sp.Float("1e-30") * (1 + abs(va) + abs(vb)):
                    okc, witc = False, "value(mid)=%s > (value(a)+value(b))/2=%s" % (sp.N(vm, 10), sp.N((va + vb) / 2, 10))
                    break
            R.check(okc, "R-C06-3", inst + " convex", fv.loc(), "declared convex and midpoint-convex on 40 exact random segments",
                    "declared convex = true but the value violates midpoint convexity: " + witc)
    R.floor("R-C06-2", n, 10, "loss kernels interpreted")


def rule_pinball(F, R):
    rnd = random.Random(777 + R.seed)
    fv = F.one("nano::pinball_loss_t::value", "src/loss/pinball.cpp")
    fg = F.one("nano::pinball_loss_t::vgrad", "src/loss/pinball.cpp")
    S, W = 2, 2
    alpha = sym("alpha")

    def run(f, third_flat):
        it = Interp(F, f, n=W)
        t, o = Samples("t", S, W), Samples("o", S, W)
        third = Samples("r", S, W)
        it.env[f.params[0]["d"]], it.env[f.params[1]["d"]], it.env[f.params[2]["d"]] = t, o, third
        for v in f.nodes():
            if v["k"] == "var" and v["n"] == "alpha" and v.get("c"):
                it.opaque[pp(v["c"][0])] = alpha
        it.run()
        return t, o, third
    try:
        t, o, vals = run(fv, True)
        t2, o2, grads = run(fg, False)
    except OutOfFragment as e:
        R.incomplete("R-C06-2", "pinball", fv.loc(), str(e))
        return
    ok, wit = True, ""
    dom = {"alpha": lambda r: sp.Rational(r.randint(1, 96), 97)}
    for i in range(S):
        Vi = sp.sympify(vals.flat[i])
        for j in range(S):
            for k in range(W):
                d = sp.diff(Vi, o.rows[j][k])
                want = sp.sympify(grads.rows[i][k]) if i == j else sp.Integer(0)
                syms = sorted(d.free_symbols | want.free_symbols | {alpha}, key=lambda s_: s_.name)
                r_, w_ = numeric_equal(d, want, syms, rnd, domain=dom)
                if r_ is False:
                    ok, wit = False, "d value(%d)/d output(%d,%d): %s" % (i, j, k, w_)
    R.check(ok, "R-C06-2", "pinball", fg.loc(), "pinball vgrad is the derivative of its value; sample i depends on sample i only", "pinball value/gradient mismatch: " + wit)
    # convexity (declared convex in the constructor)
    V0 = sp.sympify(vals.flat[0])
    okc = True
    for _ in range(40):
        fixed = {s: sp.Rational(rnd.randint(-300, 300), 97) for s in V0.free_symbols if s.name.startswith("t")}
        fixed[alpha] = sp.Rational(rnd.randint(0, 97), 97)
        a = {s: sp.Rational(rnd.randint(-3000, 3000), 101) for s in o.rows[0]}
        b = {s: sp.Rational(rnd.randint(-3000, 3000), 103) for s in o.rows[0]}
        mid = {s: (a[s] + b[s]) / 2 for s in a}
        va, vb, vm = (V0.subs(fixed).subs(p) for p in (a, b, mid))
        if vm > (va + vb) / 2:
            okc = False
    R.check(okc, "R-C06-3", "pinball convex", fv.loc(), "declared convex and midpoint-convex on exact random segments", "pinball loss violates midpoint convexity")


def rule_flatten_locality(F, R):
    n = 0
    seen = set()
    for f in F.functions.values():
        if f.qn not in ("nano::flatten_loss_t::error", "nano::flatten_loss_t::value", "nano::flatten_loss_t::vgrad") or f.name in seen:
            continue
        seen.add(f.name)
        loops = [x for x in f.nodes() if x["k"] == "for"]
        if len(loops) != 1:
            R.incomplete("R-C06-4", "flatten_loss_t::" + f.name, f.loc(), "expected one loop over the samples")
            continue
        lp = loops[0]
        iv = lp["c"][0]["c"][0]
        body = lp["c"][lp["r"].index("body")]
        idx = set()
        for x in walk(body):
            if x["k"] == "call" and ((x.get("ck") == "mem" and callee(x).split("::")[-1] in ("array", "vector", "tensor")) or x.get("op") == "()"):
                a = args(x) if x.get("ck") == "mem" else x["c"][1:]
                if len(a) == 1:
                    idx.add(pp(a[0]))
        n += 1
        okl = idx == {iv["n"]} and pp(lp["c"][lp["r"].index("cond")]) == "(%s < samples)" % iv["n"] and pp(iv["c"][0]) == "0"
        R.check(okl, "R-C06-4", "flatten_loss_t::" + f.name, f.loc(), "iteration i reads targets(i), outputs(i) and writes result(i) only, for i in [0, samples)",
                "the per-sample loop mixes indices %s" % sorted(idx))
    R.floor("R-C06-4", n, 3, "flatten loss loops")


def split_params(key):
    """parameter type strings of a function key"""
    if "(" not in key:
        return []
    inner = key[key.index("(") + 1:key.rindex(")")]
    out, depth, cur = [], 0, ""
    for ch in inner:
        if ch in "<(":
            depth += 1
        elif ch in ">)":
            depth -= 1
        if ch == "," and depth == 0:
            out.append(cur.strip())
            cur = ""
        else:
            cur += ch
    if cur.strip():
        out.append(cur.strip())
    return out


def storage_name(g, n, gx_name):
    """a name for the storage an access path designates: member field, or local/param declaration id; None for gx itself"""
    n = skip(n)
    mem = None
    for y in walk(n):
        if y["k"] == "mem" and y.get("fd"):
            mem = y["n"]
            break
    kind, d = root_of(n)
    if mem is not None:
        return "member:" + mem
    if kind == "var":
        return ("var", d)
    return None


def rule_noninterference(F, R, fns):
    """R-C06-1: storage written only when a gradient is requested is never read by the code that computes the value"""
    n = 0
    for f in fns:
        if f.name != "do_vgrad" or f.is_lambda or len(f.params) != 2:
            continue
        gx_name, gxd = f.params[1]["n"], f.params[1]["d"]
        scope = [f] + [g for _, g in F.lambdas_in(f)]
        guarded_nodes = set()
        written = {}          # storage name -> site text
        for g in scope:
            for x in walk(g.body):
                if x["k"] != "if":
                    continue
                cond = x["c"][x["r"].index("cond")]
                if not any(y["k"] == "call" and y.get("ck") == "mem" and callee(y).split("::")[-1] == "size" and pp(obj(y)) == gx_name for y in walk(cond)):
                    continue
                then = x["c"][x["r"].index("then")]
                for y in walk(then):
                    guarded_nodes.add(id(y))
                local = {v["d"] for v in walk(then) if v["k"] == "var"}
                # views of gx declared under the guard are gx storage
                gxviews = {v["d"] for v in walk(then) if v["k"] == "var" and v.get("c") and gx_name in pp(v["c"][0])}
                for tgt, kind, site in writes_in(g, then):
                    sn = storage_name(g, tgt, gx_name)
                    if sn is None:
                        continue
                    if sn[0] == "var" and (sn[1] == gxd or sn[1] in local or sn[1] in gxviews):
                        continue
                    if pp(tgt).split(".")[0].split("(")[0] == gx_name:
                        continue
                    written.setdefault(sn, "%s at %s" % (pp(site)[:70], g.loc(site)))
                # writable views passed by value (tensor maps)
                for c in walk(then):
                    if c["k"] == "call" and c.get("key"):
                        pts = split_params(c["key"])
                        for a_, pt in zip(args(c), pts):
                            if "tensor_marray_storage_t" in pt or pt.endswith("&") and not pt.startswith("const"):
                                a_ = unwrap_view(a_)
                                sn = storage_name(g, a_, gx_name)
                                if sn is None or (sn[0] == "var" and (sn[1] == gxd or sn[1] in local or sn[1] in gxviews)):
                                    continue
                                if pp(a_).split(".")[0].split("(")[0] == gx_name:
                                    continue
                                written.setdefault(sn, "%s at %s" % (pp(c)[:70], g.loc(c)))
        n += 1
        clash = []
        if written:
            for g in scope:
                for x in walk(g.body):
                    if id(x) in guarded_nodes:
                        continue
                    sn = None
                    if x["k"] == "mem" and x.get("fd"):
                        sn = "member:" + x["n"]
                    elif x["k"] == "ref" and x.get("dk") in ("var", "parm", "bind"):
                        sn = ("var", x["d"])
                    if sn in written:
                        # a pure (re)initialisation outside the guard is not a read
                        par = g.parent_of(x)
                        a = assignment(par) if par is not None else None
                        if a and a[2] == "=" and any(y is x for y in walk(a[0])):
                            continue
                        if par is not None and par["k"] == "call" and callee(par).split("::")[-1] in ("clear", "zero", "resize", "full"):
                            continue
                        clash.append("%s (written under the gradient guard: %s; read at %s)" % (sn if isinstance(sn, str) else pp(x), written[sn], g.loc(x)))
        inst = "%s::do_vgrad" % (f.cls or "?").split("::")[-1] + ("@%d" % f.line if f.relfile.endswith(".h") else "")
        R.check(not clash, "R-C06-1", inst, f.loc(), "storage written only when a gradient is requested is not read by the value computation",
                "value-only and value+gradient calls can return different values: %s" % "; ".join(clash[:3]))
    R.floor("R-C06-1", n, 3, "do_vgrad bodies")


# strong convexity claims: class -> reason (one line each, confirmed by reading)
STRONG_OK = {
    "nano::function_sphere_t": "f = x.x, Hessian 2I",
    "nano::function_axis_ellipsoid_t": "f = sum (i+1) x_i^2, Hessian diag(2(i+1)) >= 2I",
    "nano::function_exponential_t": "f = exp(1 + x.x/D): Hessian >= (2/D) e^(1+x.x/D) I >= (2/D) I",
    "nano::function_quadratic_t": "coefficient is the smallest eigenvalue of the Hessian (strong_convexity(m_A))",
    "nano::function_enet_t": "convex loss + (alpha2/2) ||x||^2 over the whole argument",
    "nano::penalty_function_t": "inherits the wrapped function's coefficient and only adds convex terms when declared convex",
}


def refute_strong_convexity(F, ctor, mu_node, seed):
    """None if the class is outside the fragment, '' if 40 random pairs satisfy f(z) >= f(x) + g.(z-x) + mu/2 |z-x|^2, else a witness"""
    D = 4
    dv = [g for g in F.functions.values() if g.cls == ctor.cls and g.name == "do_vgrad" and not g.is_lambda]
    if not dv:
        return None
    g = dv[0]
    X = [sym("x%d" % i) for i in range(D)]
    try:
        it = Interp(F, g, n=D)
        it.env[g.params[0]["d"]] = list(X)
        G = [sym("gx%d" % i) for i in range(D)]
        it.env[g.params[1]["d"]] = G
        it.opaque["size()"] = sp.Integer(D)
        V = it.run()
        im = Interp(F, ctor, n=D)
        im.opaque["size()"] = sp.Integer(D)
        for p_ in ctor.params:
            if p_["n"] in ("dims",):
                im.env[p_["d"]] = sp.Integer(D)
        mu = im.ev(mu_node)
    except Exception:
        return None
    if V is None or is_arr(V) or is_arr(mu):
        return None
    rnd = random.Random(31 + seed)
    free = sorted((sp.sympify(V).free_symbols | set().union(*[sp.sympify(x).free_symbols for x in G])) - set(X), key=lambda s_: s_.name)
    if free:
        return None         # data members set up by the constructor: their values are not modelled here
    for _ in range(40):
        fixed = {s_: sp.Rational(rnd.randint(1, 300), 97) for s_ in free}
        a = {s_: sp.Rational(rnd.randint(-300, 300), 101) for s_ in X}
        b = {s_: sp.Rational(rnd.randint(-300, 300), 103) for s_ in X}
        try:
            fa = sp.N(sp.sympify(V).subs(fixed).subs(a), 50)
            fb = sp.N(sp.sympify(V).subs(fixed).subs(b), 50)
            ga = [sp.N(sp.sympify(x).subs(fixed).subs(a), 50) for x in G]
            m_ = sp.N(sp.sympify(mu).subs(fixed), 50)
        except Exception:
            return None
        rhs = fa + sum(gi * (b[xi] - a[xi]) for gi, xi in zip(ga, X)) + m_ / 2 * sum((b[xi] - a[xi]) ** 2 for xi in X)
        if not (fb.is_real and rhs.is_real):
            return None
        if fb < rhs - sp.Float("1e-25") * (1 + abs(rhs)):
            return "f(z) = %s < f(x) + g.(z-x) + (mu/2)|z-x|^2 = %s for mu = %s" % (sp.N(fb, 8), sp.N(rhs, 8), sp.N(m_, 6))
    return ""


def claim_sites(F, ctor, idx, depth=0):
    """library expressions that end up as parameter `idx` of constructor `ctor` (through forwarding functions)"""
    out = []
    cls = strip_targs(ctor.cls)
    for g in F.functions.values():
        for x in g.nodes():
            if x["k"] == "construct" and strip_targs(x.get("cls", "")) == cls and len(x.get("c", ())) == len(ctor.params):
                a = x["c"][idx]
                a0 = skip(a)
                if a0 is not None and a0["k"] == "ref" and a0.get("dk") == "parm" and depth < 3:
                    j = [i for i, p in enumerate(g.params) if p["d"] == a0["d"]]
                    if j:
                        # forwarding function: look at its callers
                        for h in F.functions.values():
                            for c in h.calls(lambda c: callee(c) == g.qn and len(args(c)) == len(g.params)):
                                out.append((h, args(c)[j[0]]))
                        continue
                out.append((g, a))
    return out


def rule_strong_convexity(F, R, fns):
    n = 0
    for f in fns:
        if not f.raw.get("ctor") or not f.cls:
            continue
        for c in f.calls(lambda x: callee(x) == "nano::function_t::strong_convexity" and len(args(x)) == 1):
            a = args(c)[0]
            if literal_value(a) == 0:
                continue
            a0 = skip(a)
            if a0["k"] == "ref" and a0.get("dk") == "parm" and any(p["d"] == a0["d"] for p in f.params):
                # pass-through wrapper (lambda_function_t): the claim is made by whoever constructs it; follow the constructor
                # argument through forwarding factories to the library call sites
                idx = [i for i, p in enumerate(f.params) if p["d"] == a0["d"]][0]
                sites = claim_sites(F, f, idx)
                for g, site_arg in sites:
                    inst2 = "%s <- %s" % (f.cls.split("<")[0], g.qn[-50:])
                    if literal_value(site_arg) == 0:
                        R.ok("R-C06-6", inst2, g.loc(site_arg), "wrapped function built with strong convexity 0 (no claim)")
                    else:
                        R.incomplete("R-C06-6", inst2, g.loc(site_arg), "strong-convexity claim `%s` for a wrapped lambda has no recorded justification" % pp(site_arg)[:60])
                continue
            n += 1
            inst = f.cls
            refuted = refute_strong_convexity(F, f, a, R.seed)
            if refuted:
                R.bad("R-C06-6", inst, f.loc(c), "declares strong convexity %s but in the 4-dimensional instance %s" % (pp(a)[:50], refuted))
                continue
            if f.cls in STRONG_OK:
                R.ok("R-C06-6", inst, f.loc(c), "strong convexity %s: %s%s" % (pp(a)[:50], STRONG_OK[f.cls], "" if refuted is None else " (not refuted on 40 exact random pairs at D=4)"))
                continue
            # structural refutation: the quadratic term covers a strict sub-block of the argument
            dv = [g for g in F.functions.values() if g.cls == f.cls and g.name == "do_vgrad"]
            sub = None
            for g in dv:
                for v in g.nodes():
                    if v["k"] == "var" and v.get("c") and is_call(skip(v["c"][0])) and callee(skip(v["c"][0])).split("::")[-1] in ("weights",) and \
                            pp(args(skip(v["c"][0]))[0]) == g.params[0]["n"]:
                        used = [x for x in g.nodes() if x["k"] in ("bin", "call") and "m_l2reg" in pp(x) and (v["n"] + ".array()") in pp(x)]
                        if used:
                            sub = (v["n"], pp(v["c"][0]))
            if sub:
                R.bad("R-C06-6", inst, f.loc(c),
                      "declares strong convexity %s but the quadratic term only covers `%s = %s`, a strict sub-block of the argument (the bias is not "
                      "regularised): along the bias direction the function has no curvature, so f(z) >= f(x) + g.(z-x) + (mu/2)|z-x|^2 fails" % (pp(a)[:60], sub[0], sub[1]))
            else:
                R.incomplete("R-C06-6", inst, f.loc(c), "strong-convexity claim `%s` has no recorded justification" % pp(a)[:60])
    R.floor("R-C06-6", n, 2, "non-zero strong convexity declarations")


def rule_benchmarks(F, R, fns):
    """optional extension: derivative check of benchmark do_vgrad bodies that are inside the fragment (dimension 3)"""
    rnd = random.Random(99 + R.seed)
    n_ok = n_skip = 0
    skipped = []
    for f in fns:
        if f.name != "do_vgrad" or f.is_lambda or len(f.params) != 2 or not f.relfile.startswith(("src/", "include/")):
            continue
        # the derivative check runs at dimension 4 and, for benchmark functions, at the other small sizes their constructor can produce
        # (a gradient written block-wise may leave components untouched at a size the blocks do not divide)
        for D in ([4] + [d_ for d_ in ctor_sizes(F, f.cls) if d_ != 4][:3] if f.relfile.startswith("src/function/benchmark/") else [4]):
            n_ok, n_skip = _benchmark_at(F, R, f, D, rnd, skipped, n_ok, n_skip)
    R.note("benchmark functions: %d interpreted, %d outside the fragment: %s" % (n_ok, n_skip, "; ".join(skipped[:30])))
    return n_ok


def ctor_sizes(F, cls):
    """sizes (<= 9) the class's constructor hands to function_t for requested dimensions 1..9 (evaluated concretely; [] when not evaluable)"""
    out = set()
    for g in F.functions.values():
        if g.cls != cls or not g.raw.get("ctor") or not g.inits or not g.params:
            continue
        base = [i_ for i_ in g.inits if i_.get("k") == "init" and not i_.get("n") and i_.get("c")]
        dimp = [p_ for p_ in g.params if "long" in (p_.get("t") or "") or "int" in (p_.get("t") or "")]
        if not base or not dimp:
            continue
        call = skip(base[0]["c"][0]) if base[0].get("c") else None
        cargs = [x for x in (call.get("c", ()) if call is not None else ()) if x is not None]
        if len(cargs) < 2:
            continue
        expr = cargs[1]

        def ev(n_, dims):
            n_ = skip(n_)
            while n_["k"] in ("cast", "paren", "construct", "materialize", "bind") and n_.get("c") and len([c_ for c_ in n_["c"] if c_ is not None]) == 1:
                n_ = skip([c_ for c_ in n_["c"] if c_ is not None][0])
            if n_["k"] == "int":
                return n_["v"]
            if n_["k"] == "ref" and n_.get("d") == dimp[0]["d"]:
                return dims
            if n_["k"] == "bin" and n_["op"] in ("+", "-", "*", "/", "%"):
                a_, b_ = ev(n_["c"][0], dims), ev(n_["c"][1], dims)
                if a_ is None or b_ is None or (n_["op"] in ("/", "%") and b_ == 0):
                    return None
                return {"+": lambda: a_ + b_, "-": lambda: a_ - b_, "*": lambda: a_ * b_, "/": lambda: int(a_ / b_), "%": lambda: a_ - b_ * int(a_ / b_)}[n_["op"]]()
            if n_["k"] == "call" and callee(n_) in ("std::max", "std::min") and len(args(n_)) == 2:
                a_, b_ = ev(args(n_)[0], dims), ev(args(n_)[1], dims)
                if a_ is None or b_ is None:
                    return None
                return max(a_, b_) if callee(n_) == "std::max" else min(a_, b_)
            return None
        for dims in range(1, 10):
            v = ev(expr, dims)
            if v is not None and 1 <= v <= 9:
                out.add(v)
    return sorted(out)


def _benchmark_at(F, R, f, D, rnd, skipped, n_ok, n_skip):
    if True:
        X = [sym("x%d" % i) for i in range(D)]

        def run(with_grad):
            it = Interp(F, f, n=D)
            if not f.relfile.startswith("src/function/benchmark/"):
                it.member_len = 1 + D + D * (D + 1) // 2      # coefficient vector of the quadratic surrogate model
            it.env[f.params[0]["d"]] = list(X)
            G = [sym("gx%d" % i) for i in range(D)] if with_grad else []
            it.env[f.params[1]["d"]] = G
            it.opaque["size()"] = sp.Integer(D)
            v = it.run()
            return v, G
        try:
            V1, G = run(True)
            V0, _ = run(False)
        except (OutOfFragment, Exception) as e:
            n_skip += 1
            skipped.append("%s (%s)" % (f.cls.split("::")[-1], str(e)[:50]))
            return n_ok, n_skip
        if V1 is None or is_arr(V1):
            n_skip += 1
            return n_ok, n_skip
        inst = "%s %s [D=%d]" % ("benchmark" if f.relfile.startswith("src/function/benchmark/") else "function", f.cls.split("::")[-1], D)
        syms = sorted(sp.sympify(V1).free_symbols | set(X), key=lambda s: s.name)
        same, wit = numeric_equal(sp.sympify(V1), sp.sympify(V0), syms, rnd, points=6)
        if same is None:
            n_skip += 1
            return n_ok, n_skip
        n_ok += 1
        R.check(bool(same), "R-C06-1", inst + " same value", f.loc(), "value-only and value+gradient evaluation give the same value", "the value depends on whether a gradient is requested: " + wit)
        bad = None
        for j in range(D):
            if sp.sympify(G[j]) == sym("gx%d" % j):
                bad = (j, "(component never written)")
                break
            ok, w = numeric_equal(sp.diff(V1, X[j]), sp.sympify(G[j]), syms, rnd, points=8)
            if ok is False:
                bad = (j, w)
                break
        unwritten = bad is not None and sp.sympify(G[bad[0]]) == sym("gx%d" % bad[0])
        R.check(bad is None, "R-C06-2", inst + " gradient", f.loc(), "gx = d value / d x in the %d-dimensional instance" % D,
                ("gradient component %s is never written at dimension %d (the blocks of the gradient loop do not cover it): the caller receives whatever the buffer held" % (
                    bad[0], D)) if unwritten else
                "gradient component %s is not the derivative of the value %s" % (bad[0] if bad else "", bad[1] if bad else ""))
    return n_ok, n_skip


def rule_decision(F, R):
    """R-C06-7: the 0-1 errors are the arg-max / sign decision rule. The kernels only compare values, so the finite set of orderings and
    sign patterns of a 3-label (and the binary) instance is enumerated and the kernel interpreted on each"""
    import itertools
    seen = set()
    n_ok = 0
    for f in sorted(F.functions.values(), key=lambda f: f.key):
        if f.name != "error" or f.relfile != "include/nano/loss/error.h" or f.cls not in ("nano::loss::detail::sclass_t", "nano::loss::detail::mclass_t"):
            continue
        if f.cls in seen:
            continue
        seen.add(f.cls)
        kind = f.cls.split("::")[-1]
        cases = []
        perms = list(itertools.permutations([sp.Rational(-2), sp.Rational(1, 2), sp.Rational(3)]))
        signs3 = list(itertools.product([sp.Integer(-1), sp.Integer(1)], repeat=3))
        if kind == "sclass_t":
            for o in perms + [(sp.Rational(-3), sp.Rational(-2), sp.Rational(-1)), (sp.Rational(-1), sp.Rational(-3), sp.Rational(-2))]:
                for t in signs3:
                    k = list(o).index(max(o))
                    cases.append((list(t), list(o), 0 if t[k] > 0 else 1))
            for t in (-1, 1):
                for o in (sp.Rational(-2), sp.Rational(2)):
                    cases.append(([sp.Integer(t)], [o], 0 if t * o > 0 else 1))
        else:
            for o in itertools.product([sp.Rational(-2), sp.Rational(2)], repeat=3):
                for t in signs3:
                    cases.append((list(t), list(o), sum(1 for a_, b_ in zip(t, o) if a_ * b_ <= 0)))
        bad = None
        try:
            for t, o, want in cases:
                it = Interp(F, f, n=len(t))
                it.concrete_eps = True
                it.env[f.params[0]["d"]] = list(t)
                it.env[f.params[1]["d"]] = list(o)
                got = it.run()
                if got is None or sp.simplify(sp.sympify(got) - want) != 0:
                    bad = "targets %s, outputs %s: error %s, the decision rule gives %s" % (t, o, got, want)
                    break
        except OutOfFragment as e:
            R.incomplete("R-C06-7", kind, f.loc(), "cannot evaluate: %s" % e)
            continue
        n_ok += 1
        rule = "error = 0 iff the label with the highest output is a positive label (binary: iff target*output > 0)" if kind == "sclass_t" else "error = number of labels whose output sign disagrees with the target"
        R.check(bad is None, "R-C06-7", kind + " decision rule", f.loc(), rule + " on all %d ordering / sign patterns" % len(cases),
                "the 0-1 error is not the arg-max / sign decision rule: " + (bad or ""))
    R.floor("R-C06-7", n_ok, 2, "classification error kernels")


def rule_inherited_flags(F, R, fns):
    """R-C06-9: an objective that is the mean of a loss over affine predictions (the linear and the three gradient-boosting objectives) is
    convex / smooth only if its loss is: the value its constructor hands to function_t::convex() is `yes` only under a condition that has
    `<loss>.convex()` as a conjunct, the one handed to smooth() only under `<loss>.smooth()` (further conjuncts, like `l1reg <= 0`, only restrict)."""
    n = 0

    def conj(x):
        x = skip(x)
        while x["k"] == "paren" and x.get("c"):
            x = skip(x["c"][0])
        if x["k"] == "bin" and x["op"] == "&&":
            return conj(x["c"][0]) + conj(x["c"][1])
        return [x]
    for f in fns:
        if not f.raw.get("ctor") or f.body is None:
            continue
        has_loss = any("loss_t" in (p_.get("t") or "") for p_ in f.params)
        if not has_loss:
            continue
        for c in f.calls(lambda c: callee(c) in ("nano::function_t::convex", "nano::function_t::smooth") and len(args(c)) == 1):
            which = callee(c).split("::")[-1]
            a = skip(args(c)[0])
            n += 1
            inst = "%s %s()" % ((f.cls or "?").replace("nano::", ""), which)
            if a["k"] != "cond":
                yes = pp(a).endswith("::yes")
                R.check(not yes, "R-C06-9", inst, f.loc(c), "the flag depends on the loss", "the objective declares itself %s whatever its loss is" % which)
                continue
            then_yes, else_yes = pp(a["c"][1]).endswith("::yes"), pp(a["c"][2]).endswith("::yes")
            if then_yes == else_yes:
                R.incomplete("R-C06-9", inst, f.loc(c), "cannot read `%s`" % pp(a)[:80])
                continue
            if else_yes:
                R.incomplete("R-C06-9", inst, f.loc(c), "the flag is `yes` on the negative branch of `%s`" % pp(a["c"][0])[:60])
                continue
            cs = conj(a["c"][0])
            ok = any(x["k"] == "call" and callee(x) == "nano::loss_t::" + which for x in cs)
            R.check(ok, "R-C06-9", inst, f.loc(c), "`yes` only if the loss is %s" % which,
                    "the objective declares itself %s under `%s`, which does not require the loss to be %s: with a loss that is not (cauchy, savage, tangent: smooth but not "
                    "convex; mae, hinge, pinball: convex but not smooth) the declaration is false - f(z) >= f(x) + g(x).(z-x) fails" % (which, pp(a["c"][0])[:60], which))
    R.floor("R-C06-9", n, 6, "convex()/smooth() declarations of the loss-based objectives")


def run(ctx):
    R = ctx.report
    bench = ["src/function/benchmark/sphere.cpp", "src/function/benchmark/chained_cb3I.cpp", "src/function/benchmark/chained_cb3II.cpp",
             "src/function/benchmark/chained_lq.cpp", "src/function/benchmark/rosenbrock.cpp", "src/function/benchmark/styblinski_tang.cpp",
             "src/function/benchmark/schumer_steiglitz.cpp", "src/function/benchmark/qing.cpp", "src/function/benchmark/axis_ellipsoid.cpp",
             "src/function/benchmark/cauchy.cpp", "src/function/benchmark/exponential.cpp", "src/function/benchmark/dixon_price.cpp",
             "src/function/benchmark/powell.cpp", "src/function/benchmark/sargan.cpp", "src/function/benchmark/trid.cpp",
             "src/function/benchmark/zakharov.cpp", "src/function/benchmark/chung_reynolds.cpp", "src/function/benchmark/elastic_net.cpp",
             "src/function/benchmark/quadratic.cpp", "src/function/benchmark/maxq.cpp", "src/tuner/surrogate.cpp"]
    tus = ctx.all_tus() if ctx.thorough else sorted(set(TUS) | set(bench))
    F = ctx.facts(tus)
    fns = [f for f in F.functions.values() if not f.relfile.startswith("/")]
    rule_loss_kernels(F, R)
    rule_pinball(F, R)
    rule_flatten_locality(F, R)
    rule_noninterference(F, R, fns)
    c05.rule_constraint_gradients(F, R)
    rule_strong_convexity(F, R, fns)
    rule_decision(F, R)
    # the ML objectives' own terms: regulariser value / gradient pair of the linear objective, gboost's gradient objective (= R-C09-4)
    rule_inherited_flags(F, R, fns)
    c09.rule_regularisers(F, R, rule="R-C06-8")
    c09.rule_linear_chain(F, R, rule="R-C06-8")
    c09.rule_sample_axis(F, R, rule="R-C06-8")
    nb = rule_benchmarks(F, R, fns)
    R.floor("R-C06-2/benchmarks", nb, 6, "benchmark functions inside the fragment")
