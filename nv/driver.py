"""./check driver: loads the property's rule module, runs it on /repo's current sources."""
import argparse
import importlib
import json
import os
import sys
import traceback

from .facts import AnalysisBroken, Facts, repo_sources, REPO
from .report import Report


class Ctx:
    def __init__(self, pid, tier, seed, report):
        self.pid, self.tier, self.seed, self.report = pid, tier, seed, report
        self._facts = {}

    @property
    def thorough(self):
        return self.tier == "thorough"

    def facts(self, tus):
        """facts for the given TUs (repo-relative paths); thorough tier always loads the whole library too"""
        tus = tuple(sorted(set(tus)))
        if tus not in self._facts:
            f = Facts(tus)
            self._facts[tus] = f
            for t in tus:
                if t not in self.report.units:
                    self.report.units.append(t)
        return self._facts[tus]

    def all_tus(self):
        return [p[len(REPO) + 1:] for p in repo_sources()]


def main():
    ap = argparse.ArgumentParser()
    ap.add_argument("pid")
    ap.add_argument("--tier", default=os.environ.get("VERIF_TIER", "quick"))
    ap.add_argument("--replay")
    a = ap.parse_args()
    tier = a.tier if a.tier in ("quick", "thorough") else "quick"
    try:
        seed = int(os.environ.get("VERIF_SEED", "0"))
    except ValueError:
        seed = 0
    only = None
    if a.replay:
        with open(a.replay) as fh:
            r = json.load(fh)
        only = (r["rule"], r["instance"])
        tier = r.get("tier", tier)
    pid = a.pid.upper()
    rep = Report(pid, tier, seed, only)
    try:
        mod = importlib.import_module("nv.rules." + pid.lower())
    except ModuleNotFoundError:
        print("ANALYSIS-BROKEN property=%s no rule module" % pid)
        return 2
    ctx = Ctx(pid, tier, seed, rep)
    try:
        mod.run(ctx)
    except AnalysisBroken as e:
        rep.incomplete("driver", "analysis", "-", str(e))
    except Exception:
        rep.incomplete("driver", "internal-error", "-", traceback.format_exc()[-1500:])
    return rep.finish(mod.META)


if __name__ == "__main__":
    sys.exit(main())
