"""Bounded symbolic interpreter for small numeric kernels (loss value/gradient pairs, accumulators).

Arrays are Python lists of sympy expressions of a fixed small length (the 'scalarisation to dimension n' of DESIGN 2.3: a
general identity implies its n-dimensional instance, so a failing instance refutes it - necessary condition only).  Loops
with concrete bounds are unrolled; branches on symbolic conditions are executed on both sides and merged into Piecewise.
Nothing of libnano is run: only the extracted expression trees are evaluated over symbols."""
import copy

import sympy as sp

from .facts import strip_targs
from .kalg import OutOfFragment, sym
from .pp import pp, skip
from .util import args, assignment, callee, incdec, obj, literal_value


class Return(Exception):
    def __init__(self, value):
        self.value = value


class Samples:
    """a (samples x ...) tensor parameter: .array(i) / .vector(i) / .tensor(i) give the i-th sample as an array"""

    def __init__(self, name, samples, width, writable=False):
        self.name, self.samples, self.width = name, samples, width
        self.rows = [[sym("%s%d_%d" % (name, i, k)) for k in range(width)] for i in range(samples)]
        self.flat = [sym("%s%d" % (name, i)) for i in range(samples)]


def is_arr(v):
    return isinstance(v, list)


def bcast(op, a, b):
    if is_arr(a) and is_arr(b):
        if len(a) != len(b):
            raise OutOfFragment("array length mismatch")
        return [op(x, y) for x, y in zip(a, b)]
    if is_arr(a):
        return [op(x, b) for x in a]
    if is_arr(b):
        return [op(a, y) for y in b]
    return op(a, b)


def umap(fn, a):
    return [fn(x) for x in a] if is_arr(a) else fn(a)


def truth(c):
    if c is True or c is False:
        return c
    if c == sp.true:
        return True
    if c == sp.false:
        return False
    if isinstance(c, (int,)) and not isinstance(c, bool):
        return c != 0
    return None


BINOPS = {"+": lambda a, b: a + b, "-": lambda a, b: a - b, "*": lambda a, b: a * b, "/": lambda a, b: a / b,
          "<": lambda a, b: sp.Lt(a, b), "<=": lambda a, b: sp.Le(a, b), ">": lambda a, b: sp.Gt(a, b), ">=": lambda a, b: sp.Ge(a, b),
          "==": lambda a, b: sp.Eq(a, b), "!=": lambda a, b: sp.Ne(a, b), "&&": lambda a, b: sp.And(a, b), "||": lambda a, b: sp.Or(a, b)}

_INTEGRAL = {"char", "signed char", "unsigned char", "short", "unsigned short", "int", "unsigned int", "long", "unsigned long", "long long", "unsigned long long"}

UNARY = {"exp": sp.exp, "log": sp.log, "square": lambda x: x ** 2, "abs": sp.Abs, "sign": sp.sign, "atan": sp.atan, "sqrt": sp.sqrt,
         "cube": lambda x: x ** 3, "abs2": lambda x: x ** 2, "inverse": lambda x: 1 / x, "tanh": sp.tanh, "cos": sp.cos, "sin": sp.sin}
FREE1 = {"exp": sp.exp, "log": sp.log, "log1p": lambda x: sp.log(1 + x), "fabs": sp.Abs, "sqrt": sp.sqrt, "atan": sp.atan, "tanh": sp.tanh,
         "cos": sp.cos, "sin": sp.sin, "expm1": lambda x: sp.exp(x) - 1, "nano::quartic": lambda x: x ** 4,
         "std::exp": sp.exp, "std::log": sp.log, "std::log1p": lambda x: sp.log(1 + x), "std::fabs": sp.Abs, "std::abs": sp.Abs, "std::sqrt": sp.sqrt,
         "std::atan": sp.atan, "std::tanh": sp.tanh, "std::cos": sp.cos, "std::sin": sp.sin, "nano::square": lambda x: x ** 2, "nano::cube": lambda x: x ** 3,
         "nano::is_pos_target": lambda x: sp.Gt(x, 0), "std::expm1": lambda x: sp.exp(x) - 1}


class Interp:
    int_div_floor = True        # C++ integer division of sizes / counts truncates; a subclass working on symbolic extents whose divisibility is
                                # asserted by the code (reshape) may switch this off

    def __init__(self, F, f, env=None, n=3, members=None, opaque=None):
        self.F, self.f, self.n = F, f, n
        self.env = dict(env or {})          # decl id -> value
        self.members = dict(members or {})  # field name -> value
        self.opaque = dict(opaque or {})    # pp text -> value
        self.depth = 0
        self.fresh = 0

    spawn_same = False          # a subclass whose overrides must also apply inside inlined callees / lambda bodies sets this

    def _spawn(self, g):
        cls = type(self) if self.spawn_same else Interp
        return cls(self.F, g, n=self.n, members=self.members, opaque=self.opaque)

    # ---- expressions
    def ev(self, n):
        n = skip(n)
        if n is None:
            raise OutOfFragment("empty expression")
        t = pp(n)
        if t in self.opaque:
            return self.opaque[t]
        k = n["k"]
        c = n.get("c", ())
        if k == "int":
            return sp.Integer(n["v"])
        if k == "float":
            return sp.Rational(repr(n["v"])) if abs(n["v"]) < 1e15 else sp.Float(n["v"])
        if k == "bool":
            return sp.true if n["v"] else sp.false
        if k == "cast":
            v = self.ev(c[0])
            if n.get("ck") == "FloatingToIntegral" and not (not is_arr(v) and sp.sympify(v).is_number):
                raise OutOfFragment("truncating cast of a symbolic value: " + t)
            return v
        if k == "ref":
            if n["d"] in self.env:
                return self.env[n["d"]]
            if "cv" in n:
                v = n["cv"]
                return sp.Integer(v) if isinstance(v, int) else sp.Rational(repr(v))
            raise OutOfFragment("unbound reference " + t)
        if k == "mem":
            base = skip(c[0]) if c else None
            if base is not None and base["k"] == "this":
                if n["n"] not in self.members:
                    ty = n.get("t") or ""
                    if "tensor_t<" in ty and ty.rstrip(" &").endswith(", 1>"):
                        self.members[n["n"]] = [sym("%s%d" % (n["n"], i)) for i in range(getattr(self, "member_len", self.n))]
                    elif ty.replace("const ", "").strip() in ("double", "float", "long", "int"):
                        self.members[n["n"]] = sym(n["n"])
                    else:
                        raise OutOfFragment("member %s of type %s" % (n["n"], ty[:40]))
                return self.members[n["n"]]
            raise OutOfFragment("member " + t)
        if k == "un":
            if n["op"] in ("++", "--"):
                return self.incdec(n)
            v = self.ev(c[0])
            if n["op"] == "-":
                return umap(lambda x: -x, v)
            if n["op"] == "+":
                return v
            if n["op"] == "!":
                return sp.Not(v)
            if n["op"] == "&":
                return ("addr", c[0])
            raise OutOfFragment("unary " + n["op"])
        if k == "bin":
            if n["op"] in ("=", "+=", "-=", "*=", "/="):
                return self.assign(n)
            if n["op"] == ",":
                self.ev(c[0])
                return self.ev(c[1])
            if n["op"] not in BINOPS:
                raise OutOfFragment("binary " + n["op"])
            if n["op"] == "/" and self.int_div_floor and (n.get("t") or "").replace("const ", "").strip() in _INTEGRAL:
                # C++ integer division truncates (the operands here are sizes / counts, non-negative)
                return bcast(lambda a, b: sp.floor(a / b), self.ev(c[0]), self.ev(c[1]))
            return bcast(BINOPS[n["op"]], self.ev(c[0]), self.ev(c[1]))
        if k == "cond":
            cnd = self.ev(c[0])
            tr = truth(cnd)
            if tr is not None:
                return self.ev(c[1] if tr else c[2])
            a, b = self.ev(c[1]), self.ev(c[2])
            return bcast(lambda x, y: sp.Piecewise((x, cnd), (y, True)), a, b)
        if k == "call":
            return self.call(n, t)
        if k == "lambda":
            return ("lambda", n)
        if k == "construct" and n.get("cls") in ("std::tuple", "std::pair") and len(c) >= 2:
            return tuple(self.ev(x) for x in c)
        if k == "construct" and len(c) == 1:
            return self.ev(c[0])
        if k == "construct" and len(c) == 0:
            return sp.Integer(0)
        if k in ("zeroinit",):
            return sp.Integer(0)
        if k == "initlist" and len(c) == 1:
            return self.ev(c[0])
        if k == "initlist" and len(c) > 1:
            return [self.ev(x) for x in c]
        raise OutOfFragment("node %s: %s" % (k, t[:80]))

    def call(self, n, t):
        ck, q = n.get("ck"), callee(n)
        name = q.split("::")[-1]
        c = n.get("c", ())
        if ck == "op":
            op = n.get("op")
            if op in ("=", "+=", "-=", "*=", "/="):
                return self.assign(n)
            if op in ("++", "--"):
                return self.incdec(n)
            if op == "()":
                base = self.ev(c[0])
                if isinstance(base, tuple) and base and base[0] == "lambda":
                    return self.call_lambda(base[1], [self.ev(x) for x in c[1:]], c[1:])
                if len(c) == 2:
                    return self.index(base, self.ev(c[1]), t)
            if len(c) == 2 and op in BINOPS:
                return bcast(BINOPS[op], self.ev(c[0]), self.ev(c[1]))
            if len(c) == 1 and op == "-":
                return umap(lambda x: -x, self.ev(c[0]))
            raise OutOfFragment("operator %s: %s" % (op, t[:80]))
        if ck == "mem":
            o = self.ev(c[0])
            a = c[1:]
            if isinstance(o, Samples):
                if name in ("array", "vector", "tensor") and len(a) == 1:
                    i = self.ev(a[0])
                    if not sp.sympify(i).is_Integer:
                        raise OutOfFragment("symbolic sample index")
                    return o.rows[int(i)]
                if name == "size":
                    return sp.Integer(o.samples)
                if name == "dims":
                    return ("dims", o.name)
                raise OutOfFragment("tensor method " + name)
            if name in ("array", "matrix", "vector", "eval", "transpose") and not a:
                return o
            if not a and name in UNARY:
                return umap(UNARY[name], o)
            if name == "sum" and not a:
                return sum(o) if is_arr(o) else o
            if name == "mean" and not a:
                return sum(o) / len(o) if is_arr(o) else o
            if name == "size" and not a:
                return sp.Integer(len(o)) if is_arr(o) else sp.Integer(1)
            if name in ("rows", "cols") and not a and is_arr(o) and getattr(self, "matrix_shape", None) and len(o) == self.matrix_shape[0] * self.matrix_shape[1]:
                # a matrix-valued object modelled by its flattened coefficients (element-wise kernels only): its shape is the rule's choice
                return sp.Integer(self.matrix_shape[0 if name == "rows" else 1])
            if name in ("max", "cwiseMax") and len(a) == 1:
                return bcast(lambda x, y: sp.Max(x, y), o, self.ev(a[0]))
            if name in ("min", "cwiseMin") and len(a) == 1:
                return bcast(lambda x, y: sp.Min(x, y), o, self.ev(a[0]))
            if name == "pow" and len(a) == 1:
                return bcast(lambda x, y: x ** y, o, self.ev(a[0]))
            if name in ("maxCoeff", "minCoeff") and len(a) == 1 and is_arr(o) and all(sp.sympify(x).is_number for x in o):
                # concrete values: also report the position through the out-parameter (first extremum, like Eigen)
                tgt = self.ev(a[0])
                vals_ = [sp.sympify(x) for x in o]
                best = max(vals_) if name == "maxCoeff" else min(vals_)
                if isinstance(tgt, tuple) and tgt and tgt[0] == "addr":
                    self.lvalue_set(tgt[1], lambda old: sp.Integer(vals_.index(best)))
                    return best
                raise OutOfFragment("maxCoeff with an unknown out-parameter")
            if name == "count" and not a and is_arr(o):
                tr = [truth(x) for x in o]
                if any(x is None for x in tr):
                    raise OutOfFragment("count() of undecided conditions")
                return sp.Integer(sum(1 for x in tr if x))
            if name == "maxCoeff" and getattr(self, "allow_shift", False):
                # the shift of a log-sum-exp: any value gives the same result; kept as an independent symbol
                return sym("omax")
            if name in ("full", "setConstant", "fill") and len(a) == 1 and is_arr(o):
                val = self.ev(a[0])
                o[:] = [val] * len(o)
                return o
            if name in ("zero", "setZero") and not a and is_arr(o):
                o[:] = [sp.Integer(0)] * len(o)
                return o
            if name == "segment" and len(a) == 2 and is_arr(o):
                b0, ln = sp.sympify(self.ev(a[0])), sp.sympify(self.ev(a[1]))
                if not (b0.is_Integer and ln.is_Integer):
                    raise OutOfFragment("symbolic segment")
                return o[int(b0):int(b0) + int(ln)]
            if name in ("lpNorm",) and not a and is_arr(o):
                ta = n.get("targs", [""])[0]
                if ta == "1":
                    return sum(sp.Abs(x) for x in o)
                if ta == "2":
                    return sp.sqrt(sum(x ** 2 for x in o))
                if ta in ("-1", "Eigen::Infinity"):
                    return sp.Max(*[sp.Abs(x) for x in o])
                raise OutOfFragment("lpNorm<%s>" % ta)
            if name == "dot" and len(a) == 1:
                b = self.ev(a[0])
                return sum(x * y for x, y in zip(o, b)) if is_arr(o) else o * b
            if name == "squaredNorm" and not a:
                return sum(x ** 2 for x in o) if is_arr(o) else o ** 2
            if name.startswith("operator "):
                return o
            raise OutOfFragment("method %s: %s" % (name, t[:80]))
        # free functions
        vals = [self.ev(x) for x in c]
        if q in FREE1 and len(vals) == 1:
            return umap(FREE1[q], vals[0])
        if q in ("pow",) and len(vals) == 2:
            return bcast(lambda x, y: x ** y, vals[0], vals[1])
        if q in ("std::max",) and len(vals) == 1 and is_arr(vals[0]):
            return sp.Max(*vals[0])
        if q in ("std::min",) and len(vals) == 1 and is_arr(vals[0]):
            return sp.Min(*vals[0])
        if q in ("std::max", "std::fmax") and len(vals) == 2:
            return bcast(lambda x, y: sp.Max(x, y), vals[0], vals[1])
        if q in ("std::min", "std::fmin") and len(vals) == 2:
            return bcast(lambda x, y: sp.Min(x, y), vals[0], vals[1])
        if q == "std::pow" and len(vals) == 2:
            return bcast(lambda x, y: x ** y, vals[0], vals[1])
        if q == "std::numeric_limits::epsilon":
            return sp.Rational(1, 2 ** 52) if getattr(self, "concrete_eps", False) else sym("tiny_eps", positive=True)
        if q in ("std::move", "std::forward") and len(vals) == 1:
            return vals[0]
        if q in ("std::make_tuple", "std::make_pair"):
            return tuple(vals)
        if q == "std::get" and len(vals) == 1 and isinstance(vals[0], tuple):
            return vals[0][int(n["targs"][0].rstrip("UL"))]
        # functions defined in the repository: interpret their body
        targets = self.F.resolve(n)
        if targets and self.depth < 6:
            g = targets[0]
            sub = self._spawn(g)
            sub.depth = self.depth + 1
            sub.allow_shift = getattr(self, "allow_shift", False)
            for p, v in zip(g.params, vals):
                sub.env[p["d"]] = v
            return sub.run()
        raise OutOfFragment("call %s: %s" % (q, t[:80]))

    def call_lambda(self, lam, vals, arg_nodes):
        bodies = self.F.by_lid.get(lam.get("lid"), [])
        if not bodies or self.depth > 6:
            raise OutOfFragment("lambda body not available")
        g = bodies[0]
        sub = self._spawn(g)
        sub.depth = self.depth + 1
        sub.allow_shift = getattr(self, "allow_shift", False)
        sub.env = dict(self.env)         # captures: the lambda body refers to the enclosing declarations
        for i, p in enumerate(g.params):
            if i < len(vals):
                sub.env[p["d"]] = vals[i]
            else:
                # default argument
                raise OutOfFragment("lambda default argument")
        r = sub.run()
        # by-reference captures: propagate scalar updates of pre-existing variables back
        for k_, v in sub.env.items():
            if k_ in self.env and not is_arr(v):
                self.env[k_] = v
        return r

    def index(self, base, idx, t):
        i = sp.sympify(idx)
        if isinstance(base, Samples):
            if not i.is_Integer:
                raise OutOfFragment("symbolic index " + t)
            return base.flat[int(i)]
        if not is_arr(base):
            raise OutOfFragment("indexing a scalar: " + t)
        if not i.is_Integer:
            raise OutOfFragment("symbolic index " + t)
        return base[int(i)]

    # ---- lvalues
    def lvalue_set(self, lhs, fn):
        """apply fn(old) -> new on the storage designated by lhs; returns the new value"""
        lhs = skip(lhs)
        if lhs["k"] == "ref":
            old = self.env.get(lhs["d"])
            new = fn(old)
            if is_arr(old) and is_arr(new):
                old[:] = new           # arrays are views: keep aliasing
                return old
            if is_arr(old) and not is_arr(new):
                old[:] = [new] * len(old)
                return old
            self.env[lhs["d"]] = new
            return new
        if lhs["k"] == "mem" and skip(lhs["c"][0])["k"] == "this":
            old = self.members.get(lhs["n"])
            new = fn(old)
            if is_arr(old) and is_arr(new):
                old[:] = new
                return old
            self.members[lhs["n"]] = new
            return new
        if lhs["k"] == "call" and lhs.get("op") == "()" and len(lhs["c"]) == 2:
            base, idx = self.ev(lhs["c"][0]), sp.sympify(self.ev(lhs["c"][1]))
            if not idx.is_Integer:
                raise OutOfFragment("symbolic index in assignment")
            tgt = base.flat if isinstance(base, Samples) else base
            if not is_arr(tgt):
                raise OutOfFragment("indexed assignment into a scalar")
            tgt[int(idx)] = fn(tgt[int(idx)])
            return tgt[int(idx)]
        if lhs["k"] == "call" and lhs.get("ck") == "mem" and callee(lhs).split("::")[-1] in ("array", "matrix", "vector", "transpose", "noalias") and len(lhs.get("c", ())) == 1:
            return self.lvalue_set(lhs["c"][0], fn)
        if lhs["k"] == "call" and lhs.get("ck") == "mem" and callee(lhs).split("::")[-1] in ("segment", "head", "tail") and lhs.get("c"):
            base = self.ev(lhs["c"][0])
            if not is_arr(base):
                raise OutOfFragment("segment of a scalar")
            a_ = [sp.sympify(self.ev(x)) for x in lhs["c"][1:]]
            if not all(x.is_Integer for x in a_):
                raise OutOfFragment("symbolic segment")
            nm = callee(lhs).split("::")[-1]
            if nm == "segment":
                b0, ln = int(a_[0]), int(a_[1])
            elif nm == "head":
                b0, ln = 0, int(a_[0])
            else:
                b0, ln = len(base) - int(a_[0]), int(a_[0])
            new = fn(base[b0:b0 + ln])
            base[b0:b0 + ln] = new if is_arr(new) else [new] * ln
            return base[b0:b0 + ln]
        if lhs["k"] == "call" and lhs.get("ck") == "mem":
            # views: x.array() = ..., x.array(i) = ...
            v = self.ev(lhs)
            if is_arr(v):
                new = fn(list(v))
                v[:] = new if is_arr(new) else [new] * len(v)
                return v
        raise OutOfFragment("unsupported assignment target: " + pp(lhs)[:80])

    def assign(self, n):
        a = assignment(n)
        lhs, rhs, op = a
        val = self.ev(rhs)
        if is_arr(val):
            val = list(val)
        if op == "=":
            return self.lvalue_set(lhs, lambda old: val)
        f = {"+=": lambda x, y: x + y, "-=": lambda x, y: x - y, "*=": lambda x, y: x * y, "/=": lambda x, y: x / y}[op]
        return self.lvalue_set(lhs, lambda old: bcast(f, old, val))

    def incdec(self, n):
        tgt, op = incdec(n)
        post = n.get("post") or (n["k"] == "call" and len(n.get("c", ())) == 2)
        old = self.ev(tgt)
        self.lvalue_set(tgt, lambda o: o + (1 if op == "++" else -1))
        return old if post else self.ev(tgt)

    # ---- statements
    def ex(self, s):
        s = skip(s)
        if s is None:
            return
        k = s["k"]
        if k == "block":
            for x in s.get("c", ()):
                self.ex(x)
            return
        if k == "declstmt":
            for v in s.get("c", ()):
                if v["k"] == "var":
                    if v.get("bindings"):
                        val = self.ev(v["c"][0])
                        if not isinstance(val, tuple) or len(val) != len(v["bindings"]):
                            raise OutOfFragment("structured binding of a non-tuple")
                        for bd, x_ in zip(v["bindings"], val):
                            self.env[bd["d"]] = x_
                        continue
                    self.env[v["d"]] = self.ev(v["c"][0]) if v.get("c") else sp.Integer(0)
                    if is_arr(self.env[v["d"]]) and not v.get("isref") and "Eigen::Array<" in (v.get("t") or "") + "":
                        self.env[v["d"]] = list(self.env[v["d"]])
            return
        if k == "return":
            raise Return(self.ev(s["c"][0]) if s.get("c") else None)
        if k == "for":
            r = s["r"]
            if "init" in r:
                self.ex(s["c"][r.index("init")])
            it = 0
            while True:
                if "cond" in r:
                    tr = truth(self.ev(s["c"][r.index("cond")]))
                    if tr is None:
                        raise OutOfFragment("loop condition is symbolic: " + pp(s["c"][r.index("cond")]))
                    if not tr:
                        break
                it += 1
                if it > 64:
                    raise OutOfFragment("loop does not terminate within 64 iterations")
                self.ex(s["c"][r.index("body")])
                if "inc" in r:
                    self.ev(s["c"][r.index("inc")])
            return
        if k == "if":
            r = s["r"]
            if "init" in r:
                self.ex(s["c"][r.index("init")])
            cnd = self.ev(s["c"][r.index("cond")])
            tr = truth(cnd)
            if tr is True:
                return self.ex(s["c"][r.index("then")])
            if tr is False:
                return self.ex(s["c"][r.index("else")]) if "else" in r else None
            self.fork(cnd, s["c"][r.index("then")], s["c"][r.index("else")] if "else" in r else None)
            return
        if k in ("call", "bin", "un", "cast", "cond"):
            self.ev(s)
            return
        if k in ("null", "int"):
            return
        raise OutOfFragment("statement %s: %s" % (k, pp(s)[:80]))

    def snapshot(self):
        seen = {}

        def cp(v):
            if is_arr(v):
                if id(v) not in seen:
                    seen[id(v)] = list(v)
                return seen[id(v)]
            return v
        return {k: cp(v) for k, v in self.env.items()}, {k: cp(v) for k, v in self.members.items()}, seen

    def fork(self, cnd, then, els):
        """execute both sides of a symbolic branch and merge the stores element-wise"""
        base_env, base_mem = self.env, self.members
        results = []
        for branch in (then, els):
            self.env, self.members = base_env, base_mem
            env, mem, _ = self.snapshot()
            self.env, self.members = env, mem
            if branch is not None:
                self.ex(branch)
            results.append((self.env, self.members))
        self.env, self.members = base_env, base_mem

        def merge(a, b):
            if is_arr(a) and is_arr(b):
                return [x if x == y else sp.Piecewise((x, cnd), (y, True)) for x, y in zip(a, b)]
            return a if a == b else sp.Piecewise((a, cnd), (b, True))
        (e1, m1), (e2, m2) = results
        for store, s1, s2 in ((self.env, e1, e2), (self.members, m1, m2)):
            for k_ in set(s1) & set(s2):
                new = merge(s1[k_], s2[k_])
                old = store.get(k_)
                if is_arr(old) and is_arr(new):
                    old[:] = new
                else:
                    store[k_] = new

    def run(self):
        try:
            self.ex(self.f.body)
        except Return as r:
            return r.value
        return None
