"""Fact loading: runs the nanofacts extractor over /repo's *current* sources (cached by content
hash) and offers a small query API over functions, trees and CFGs."""
import hashlib
import json
import os
import re
import subprocess
import sys
import tempfile
import time
from concurrent.futures import ThreadPoolExecutor

VERIF = os.path.dirname(os.path.dirname(os.path.abspath(__file__)))
REPO = os.environ.get("NANO_REPO", "/repo")
BUILD = os.path.join(VERIF, "build")
NANOFACTS = os.path.join(BUILD, "nanofacts")
GEN = os.path.join(BUILD, "gen")
WITNESS = os.path.join(VERIF, "witness")
EXTRACTOR_SRC = os.path.join(VERIF, "tools", "nanofacts", "nanofacts.cc")


class AnalysisBroken(Exception):
    """the analysis itself cannot conclude (missing anchor, parse error, count below floor)"""


def _sha(data):
    return hashlib.sha256(data).hexdigest()


def repo_sources():
    """all library translation units, by glob (a newly added file is covered)"""
    out = []
    for root, _, files in os.walk(os.path.join(REPO, "src")):
        for f in files:
            if f.endswith(".cpp"):
                out.append(os.path.join(root, f))
    return sorted(out)


_hdr_hash = None


def headers_hash():
    global _hdr_hash
    if _hdr_hash is None:
        h = hashlib.sha256()
        paths = []
        for base in (os.path.join(REPO, "include"), os.path.join(REPO, "src"), WITNESS):
            for root, _, files in os.walk(base):
                for f in files:
                    if f.endswith((".h", ".hpp")):
                        paths.append(os.path.join(root, f))
        for p in sorted(paths):
            h.update(p.encode())
            with open(p, "rb") as fh:
                h.update(fh.read())
        with open(EXTRACTOR_SRC, "rb") as fh:
            h.update(fh.read())
        for extra in (os.path.join(REPO, "cmake", "version.h.in"), os.path.join(REPO, "CMakeLists.txt")):
            if os.path.exists(extra):
                with open(extra, "rb") as fh:
                    h.update(fh.read())
        _hdr_hash = h.hexdigest()
    return _hdr_hash


def ensure_tools():
    if not os.path.exists(NANOFACTS) or os.path.getmtime(NANOFACTS) < os.path.getmtime(EXTRACTOR_SRC):
        r = subprocess.run([os.path.join(VERIF, "setup.sh")], cwd=VERIF, capture_output=True, text=True)
        if r.returncode != 0 or not os.path.exists(NANOFACTS):
            raise AnalysisBroken("cannot build nanofacts: " + r.stderr[-2000:])
    gen_version_header()


def gen_version_header():
    src = os.path.join(REPO, "cmake", "version.h.in")
    if not os.path.exists(src):
        raise AnalysisBroken("missing " + src)
    text = open(src).read()
    cm = open(os.path.join(REPO, "CMakeLists.txt")).read()
    m = re.search(r"project\s*\([^)]*?VERSION\s+(\d+)\.(\d+)\.(\d+)", cm, re.S)
    ver = m.groups() if m else ("0", "0", "0")
    text = (text.replace("@PROJECT_VERSION_MAJOR@", ver[0]).replace("@PROJECT_VERSION_MINOR@", ver[1])
            .replace("@PROJECT_VERSION_PATCH@", ver[2]).replace("@PROJECT_GIT_COMMIT_HASH@", "verif"))
    dst = os.path.join(GEN, "nano", "version.h")
    os.makedirs(os.path.dirname(dst), exist_ok=True)
    if not os.path.exists(dst) or open(dst).read() != text:
        with open(dst, "w") as fh:
            fh.write(text)


def compile_flags():
    return ["-std=c++17", "-DNDEBUG", "-DNANO_HAS_FROM_CHARS_FLOAT", "-I" + GEN, "-I" + REPO + "/include",
            "-I" + REPO + "/src", "-I" + WITNESS, "-isystem", "/usr/include/eigen3",
            "-I/usr/lib/llvm-14/lib/clang/14.0.6/include", "-Wno-everything"]


def _facts_path(tu):
    with open(tu, "rb") as fh:
        key = _sha((headers_hash() + tu).encode() + fh.read())[:24]
    d = os.path.join(BUILD, "facts")
    os.makedirs(d, exist_ok=True)
    return os.path.join(d, os.path.basename(tu) + "." + key + ".json")


def _extract_one(tu):
    out = _facts_path(tu)
    if os.path.exists(out):
        return out, False
    tmp = tempfile.mkdtemp(prefix="nf", dir=os.path.join(BUILD, "facts"))
    try:
        cmd = [NANOFACTS, "-out", tmp, "-roots", REPO + "/," + WITNESS + "/", tu, "--"] + compile_flags()
        r = subprocess.run(cmd, capture_output=True, text=True)
        produced = os.path.join(tmp, tu.replace("/", "@") + ".json")
        if r.returncode != 0 or not os.path.exists(produced):
            raise AnalysisBroken("extractor failed on %s: %s" % (tu, (r.stderr or r.stdout)[-1500:]))
        os.replace(produced, out)
    finally:
        for f in os.listdir(tmp):
            os.unlink(os.path.join(tmp, f))
        os.rmdir(tmp)
    return out, True


def _gc_cache(keep):
    d = os.path.join(BUILD, "facts")
    try:
        entries = [(os.path.getmtime(os.path.join(d, f)), f) for f in os.listdir(d) if f.endswith(".json")]
    except OSError:
        return
    if len(entries) > keep:
        entries.sort()
        for _, f in entries[: len(entries) - keep]:
            try:
                os.unlink(os.path.join(d, f))
            except OSError:
                pass


def resolve_tu(name):
    if name.startswith("/"):
        p = name
    elif name.startswith("witness/"):
        p = os.path.join(VERIF, name)
    else:
        p = os.path.join(REPO, name)
    if not os.path.exists(p):
        raise AnalysisBroken("anchor translation unit vanished: " + name)
    return p


def extract(tus):
    ensure_tools()
    paths = [resolve_tu(t) for t in tus]
    t0 = time.time()
    with ThreadPoolExecutor(max_workers=min(16, max(1, len(paths)))) as ex:
        res = list(ex.map(_extract_one, paths))
    for p, _ in res:
        os.utime(p)
    _gc_cache(1200)
    return [r[0] for r in res], sum(1 for r in res if r[1]), time.time() - t0


# ------------------------------------------------------------------------------------------------
# tree helpers (nodes are plain dicts: i, k, l, t, c, ...)


def kids(n):
    return n.get("c", ()) if n else ()


def walk(n):
    """pre-order"""
    if n is None:
        return
    stack = [n]
    while stack:
        x = stack.pop()
        if x is None:
            continue
        yield x
        c = x.get("c")
        if c:
            stack.extend(reversed(c))


def role(n, r):
    rs = n.get("r")
    if not rs or r not in rs:
        return None
    return n["c"][rs.index(r)]


_tmpl = re.compile(r"<[^<>]*>")


def strip_targs(s):
    prev = None
    s = s.replace("operator<<", "operator$shl").replace("operator<=", "operator$le").replace("operator<", "operator$lt") \
         .replace("operator>>", "operator$shr").replace("operator>=", "operator$ge").replace("operator>", "operator$gt") \
         .replace("operator->", "operator$arrow")
    while prev != s:
        prev = s
        s = _tmpl.sub("", s)
    return s.replace("operator$shl", "operator<<").replace("operator$le", "operator<=").replace("operator$lt", "operator<") \
            .replace("operator$shr", "operator>>").replace("operator$ge", "operator>=").replace("operator$gt", "operator>") \
            .replace("operator$arrow", "operator->")


class Function:
    def __init__(self, raw, types, tu):
        self.raw = raw
        self.types = types
        self.tu = tu
        self.key = raw["key"]
        self.qn = strip_targs(raw["qn"])
        self.name = raw["name"]
        self.file = raw["file"]
        self.line = raw["line"]
        self.end = raw.get("end", raw["line"])
        self.cls = strip_targs(raw["cls"]) if "cls" in raw else None
        self.is_const = raw.get("const", False)
        self.is_lambda = raw.get("lambda", False)
        self.parent = raw.get("parent")
        self.params = raw.get("params", [])
        for p in self.params:
            if isinstance(p.get("t"), int):
                p["t"] = types[p["t"]]
        self._body = raw.get("body")
        self._inits = raw.get("inits", [])
        self._nodes = None
        self._parent = None
        self._cfg = None

    @property
    def body(self):
        self._index()
        return self._body

    @property
    def inits(self):
        self._index()
        return self._inits

    @property
    def relfile(self):
        return self.file[len(REPO) + 1:] if self.file.startswith(REPO + "/") else self.file

    def loc(self, n=None):
        return "%s:%d" % (self.relfile, n["l"] if n else self.line)

    def _index(self):
        if self._nodes is not None:
            return
        nodes, parent = {}, {}
        types = self.types

        def visit(root):
            stack = [(root, None)]
            while stack:
                x, p = stack.pop()
                if x is None:
                    continue
                t = x.get("t")
                if isinstance(t, int):
                    x["t"] = types[t]
                nodes.setdefault(x["i"], x)
                parent[x["i"]] = p
                for ch in reversed(x.get("c", ())):
                    stack.append((ch, x))

        self._nodes, self._parent = nodes, parent
        for i in self._inits:
            visit(i)
        if self._body:
            visit(self._body)
        cfg = self.raw.get("cfg")
        if cfg:
            for b in cfg["blocks"]:
                for e in b["el"]:
                    if isinstance(e, dict):
                        if "x" in e:
                            visit(e["x"])
                        if isinstance(e.get("e"), dict) and "x" in e["e"]:
                            visit(e["e"]["x"])
                        tt = e.get("t")
                        if isinstance(tt, int):
                            e["t"] = types[tt]
                c = b.get("cond")
                if isinstance(c, dict) and "x" in c:
                    visit(c["x"])
        for p in self.params:
            if isinstance(p.get("t"), int):
                p["t"] = types[p["t"]]
        self._nodes, self._parent = nodes, parent

    def node(self, i):
        self._index()
        return self._nodes.get(i)

    def parent_of(self, n):
        self._index()
        return self._parent.get(n["i"])

    def ancestors(self, n):
        p = self.parent_of(n)
        while p is not None:
            yield p
            p = self.parent_of(p)

    def nodes(self):
        """pre-order over initialisers and body"""
        self._index()
        for i in self._inits:
            yield from walk(i)
        yield from walk(self._body)

    def calls(self, pred=None):
        for n in self.nodes():
            if n["k"] == "call" and (pred is None or pred(n)):
                yield n

    @property
    def cfg(self):
        if self._cfg is None:
            self._index()
            from . import cfg as _cfg
            self._cfg = _cfg.CFG(self)
        return self._cfg

    def param(self, name):
        for p in self.params:
            if p["n"] == name:
                return p
        return None

    def __repr__(self):
        return "<fn %s @%s>" % (self.key[:80], self.loc())


class Facts:
    def __init__(self, tus, quiet=False):
        t0 = time.time()
        self.tus = list(tus)
        files, self.extracted, self.extract_s = extract(self.tus)
        self.functions = {}   # (key, file, line) -> Function
        self.by_qn = {}
        self.by_file = {}
        self.by_key = {}
        self.by_lid = {}
        self.classes = {}
        self.enums = {}
        self.aliases = {}
        self.gvars = {}
        for tu, path in zip(self.tus, files):
            with open(path) as fh:
                d = json.load(fh)
            if d.get("errors"):
                raise AnalysisBroken("parse errors in " + tu)
            types = d["types"]
            for rf in d["functions"]:
                ident = (rf["key"], rf["file"], rf["line"])
                if ident in self.functions:
                    continue
                f = Function(rf, types, tu)
                self.functions[ident] = f
                self.by_qn.setdefault(f.qn, []).append(f)
                self.by_file.setdefault(f.relfile, []).append(f)
                self.by_key.setdefault(f.key, []).append(f)
                if "lid" in rf:
                    self.by_lid.setdefault(rf["lid"], []).append(f)
            for c in d["classes"]:
                if c["key"] not in self.classes:
                    for fl in c["fields"]:
                        fl["t"] = types[fl["t"]]
                    for sv in c.get("svars", []):
                        sv["t"] = types[sv["t"]]
                    self.classes[c["key"]] = c
            for e in d["enums"]:
                self.enums.setdefault(e["qn"], e)
            for a in d["aliases"]:
                if a["qn"] not in self.aliases:
                    a["t"] = types[a["t"]]
                    self.aliases[a["qn"]] = a
            for g in d["gvars"]:
                k = (g["qn"], g["file"], g["line"])
                if k not in self.gvars:
                    g["t"] = types[g["t"]]
                    self.gvars[k] = g
        self.load_s = time.time() - t0

    # -- queries
    def fn(self, qn, file=None, where=None):
        """functions with the given (template-stripped) qualified name"""
        out = [f for f in self.by_qn.get(qn, []) if (file is None or f.relfile == file) and (where is None or where(f))]
        return out

    def one(self, qn, file=None, where=None):
        out = self.fn(qn, file, where)
        if not out:
            raise AnalysisBroken("anchor function vanished: %s%s" % (qn, " in " + file if file else ""))
        # several template instantiations of one definition: same file/line
        locs = {(f.file, f.line) for f in out}
        if len(locs) > 1:
            raise AnalysisBroken("anchor function ambiguous: %s (%s)" % (qn, sorted(locs)))
        return out[0]

    def in_file(self, relfile):
        return self.by_file.get(relfile, [])

    def cls(self, qn):
        out = [c for c in self.classes.values() if strip_targs(c["qn"]) == qn]
        return out

    def one_cls(self, qn):
        out = self.cls(qn)
        if not out:
            raise AnalysisBroken("anchor class vanished: " + qn)
        return out[0]

    def lambdas_in(self, f, _seen=None):
        """lambda bodies lexically inside function f (any depth, nested lambdas included)"""
        out = []
        seen = _seen if _seen is not None else set()
        for n in f.nodes():
            if n["k"] == "lambda":
                for g in self.by_lid.get(n.get("lid"), []):
                    if id(g) in seen:
                        continue
                    seen.add(id(g))
                    out.append((n, g))
                    out.extend(self.lambdas_in(g, seen))
        return out

    def resolve(self, call):
        """definition(s) of a call's callee, if emitted"""
        k = call.get("key")
        return self.by_key.get(k, []) if k else []
