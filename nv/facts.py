"""Fact loading: runs the nanofacts extractor over /repo's *current* sources (cached by content
hash) and offers a small query API over functions, trees and CFGs."""
import hashlib
import json
import os
import re
import subprocess
import sys
import tempfile
import time
from concurrent.futures import ThreadPoolExecutor

VERIF = os.path.dirname(os.path.dirname(os.path.abspath(__file__)))
REPO = os.environ.get("NANO_REPO", "/repo")
BUILD = os.path.join(VERIF, "build")
NANOFACTS = os.path.join(BUILD, "nanofacts")
GEN = os.path.join(BUILD, "gen")
WITNESS = os.path.join(VERIF, "witness")
EXTRACTOR_SRC = os.path.join(VERIF, "tools", "nanofacts", "nanofacts.cc")


class AnalysisBroken(Exception):
    """the analysis itself cannot conclude (missing anchor, parse error, count below floor)"""


def _sha(data):
    return hashlib.sha256(data).hexdigest()


def repo_sources():
    """all library translation units, by glob (a newly added file is covered)"""
    out = []
    for root, _, files in os.walk(os.path.join(REPO, "src")):
        for f in files:
            if f.endswith(".cpp"):
                out.append(os.path.join(root, f))
    return sorted(out)


_hdr_hash = None


def headers_hash():
    global _hdr_hash
    if _hdr_hash is None:
        h = hashlib.sha256()
        paths = []
        for base in (os.path.join(REPO, "include"), os.path.join(REPO, "src"), WITNESS):
            for root, _, files in os.walk(base):
                for f in files:
                    if f.endswith((".h", ".hpp")):
                        paths.append(os.path.join(root, f))
        for p in sorted(paths):
            h.update(p.encode())
            with open(p, "rb") as fh:
                h.update(fh.read())
        with open(EXTRACTOR_SRC, "rb") as fh:
            h.update(fh.read())
        for extra in (os.path.join(REPO, "cmake", "version.h.in"), os.path.join(REPO, "CMakeLists.txt")):
            if os.path.exists(extra):
                with open(extra, "rb") as fh:
                    h.update(fh.read())
        _hdr_hash = h.hexdigest()
    return _hdr_hash


def ensure_tools():
    if not os.path.exists(NANOFACTS) or os.path.getmtime(NANOFACTS) < os.path.getmtime(EXTRACTOR_SRC):
        r = subprocess.run([os.path.join(VERIF, "setup.sh")], cwd=VERIF, capture_output=True, text=True)
        if r.returncode != 0 or not os.path.exists(NANOFACTS):
            raise AnalysisBroken("cannot build nanofacts: " + r.stderr[-2000:])
    gen_version_header()


def gen_version_header():
    src = os.path.join(REPO, "cmake", "version.h.in")
    if not os.path.exists(src):
        raise AnalysisBroken("missing " + src)
    text = open(src).read()
    cm = open(os.path.join(REPO, "CMakeLists.txt")).read()
    m = re.search(r"project\s*\([^)]*?VERSION\s+(\d+)\.(\d+)\.(\d+)", cm, re.S)
    ver = m.groups() if m else ("0", "0", "0")
    text = (text.replace("@PROJECT_VERSION_MAJOR@", ver[0]).replace("@PROJECT_VERSION_MINOR@", ver[1])
            .replace("@PROJECT_VERSION_PATCH@", ver[2]).replace("@PROJECT_GIT_COMMIT_HASH@", "verif"))
    dst = os.path.join(GEN, "nano", "version.h")
    os.makedirs(os.path.dirname(dst), exist_ok=True)
    if not os.path.exists(dst) or open(dst).read() != text:
        with open(dst, "w") as fh:
            fh.write(text)


def compile_flags():
    return ["-std=c++17", "-DNDEBUG", "-DNANO_HAS_FROM_CHARS_FLOAT", "-I" + GEN, "-I" + REPO + "/include",
            "-I" + REPO + "/src", "-I" + WITNESS, "-isystem", "/usr/include/eigen3",
            "-I/usr/lib/llvm-14/lib/clang/14.0.6/include", "-Wno-everything"]


def _facts_path(tu):
    with open(tu, "rb") as fh:
        key = _sha((headers_hash() + tu).encode() + fh.read())[:24]
    d = os.path.join(BUILD, "facts")
    os.makedirs(d, exist_ok=True)
    return os.path.join(d, os.path.basename(tu) + "." + key + ".json")


def _extract_one(tu):
    out = _facts_path(tu)
    if os.path.exists(out):
        return out, False
    tmp = tempfile.mkdtemp(prefix="nf", dir=os.path.join(BUILD, "facts"))
    try:
        cmd = [NANOFACTS, "-out", tmp, "-roots", REPO + "/," + WITNESS + "/", tu, "--"] + compile_flags()
        r = subprocess.run(cmd, capture_output=True, text=True)
        produced = os.path.join(tmp, tu.replace("/", "@") + ".json")
        if r.returncode != 0 or not os.path.exists(produced):
            raise AnalysisBroken("extractor failed on %s: %s" % (tu, (r.stderr or r.stdout)[-1500:]))
        os.replace(produced, out)
    finally:
        for f in os.listdir(tmp):
            os.unlink(os.path.join(tmp, f))
        os.rmdir(tmp)
    return out, True


def _gc_cache(keep):
    d = os.path.join(BUILD, "facts")
    try:
        entries = [(os.path.getmtime(os.path.join(d, f)), f) for f in os.listdir(d) if f.endswith(".json")]
    except OSError:
        return
    if len(entries) > keep:
        entries.sort()
        for _, f in entries[: len(entries) - keep]:
            try:
                os.unlink(os.path.join(d, f))
            except OSError:
                pass


def resolve_tu(name):
    if name.startswith("/"):
        p = name
    elif name.startswith("witness/"):
        p = os.path.join(VERIF, name)
    else:
        p = os.path.join(REPO, name)
    if not os.path.exists(p):
        raise AnalysisBroken("anchor translation unit vanished: " + name)
    return p


def extract(tus):
    ensure_tools()
    paths = [resolve_tu(t) for t in tus]
    t0 = time.time()
    with ThreadPoolExecutor(max_workers=min(16, max(1, len(paths)))) as ex:
        res = list(ex.map(_extract_one, paths))
    for p, _ in res:
        try:
            os.utime(p)
        except OSError:
            pass
    _gc_cache(5000)
    return [r[0] for r in res], sum(1 for r in res if r[1]), time.time() - t0


# ------------------------------------------------------------------------------------------------
# tree helpers (nodes are plain dicts: i, k, l, t, c, ...)


def kids(n):
    return n.get("c", ()) if n else ()


def walk(n):
    """pre-order"""
    if n is None:
        return
    stack = [n]
    while stack:
        x = stack.pop()
        if x is None:
            continue
        yield x
        c = x.get("c")
        if c:
            stack.extend(reversed(c))


def role(n, r):
    rs = n.get("r")
    if not rs or r not in rs:
        return None
    return n["c"][rs.index(r)]


_tmpl = re.compile(r"<[^<>]*>")


def strip_targs(s):
    prev = None
    s = s.replace("operator<<", "operator$shl").replace("operator<=", "operator$le").replace("operator<", "operator$lt") \
         .replace("operator>>", "operator$shr").replace("operator>=", "operator$ge").replace("operator>", "operator$gt") \
         .replace("operator->", "operator$arrow")
    while prev != s:
        prev = s
        s = _tmpl.sub("", s)
    return s.replace("operator$shl", "operator<<").replace("operator$le", "operator<=").replace("operator$lt", "operator<") \
            .replace("operator$shr", "operator>>").replace("operator$ge", "operator>=").replace("operator$gt", "operator>") \
            .replace("operator$arrow", "operator->")


_COMMUTATIVE = ("+", "*", "==", "!=")
_VIEW_ACCESSORS = {"matrix", "vector", "array", "tensor", "data", "begin", "end", "cbegin", "cend", "reshape", "slice", "block", "row", "col", "segment", "head",
                   "tail", "transpose", "size", "rows", "cols", "dims"}
_ARITH_TYPES = {"bool", "char", "signed char", "unsigned char", "short", "unsigned short", "int", "unsigned int", "long", "unsigned long", "long long",
                "unsigned long long", "float", "double"}


class Function:
    def __init__(self, raw, types, tu):
        self.raw = raw
        self.types = types
        self.tu = tu
        self.key = raw["key"]
        self.qn = strip_targs(raw["qn"])
        self.name = raw["name"]
        self.file = raw["file"]
        self.line = raw["line"]
        self.end = raw.get("end", raw["line"])
        self.cls = strip_targs(raw["cls"]) if "cls" in raw else None
        self.is_const = raw.get("const", False)
        self.is_lambda = raw.get("lambda", False)
        self.parent = raw.get("parent")
        self.params = raw.get("params", [])
        for p in self.params:
            if isinstance(p.get("t"), int):
                p["t"] = types[p["t"]]
        self._body = raw.get("body")
        self._inits = raw.get("inits", [])
        self._nodes = None
        self._parent = None
        self._cfg = None
        self.rename = None          # decl id -> canonical (baseline) name, shared per TU; set by Facts
        self.extra_locals = None    # decl ids of locals the baseline (nv/names.json) does not declare; set by Facts
        self.inlined = 0

    @property
    def body(self):
        self._index()
        return self._body

    @property
    def inits(self):
        self._index()
        return self._inits

    @property
    def relfile(self):
        return self.file[len(REPO) + 1:] if self.file.startswith(REPO + "/") else self.file

    def loc(self, n=None):
        return "%s:%d" % (self.relfile, n["l"] if n else self.line)

    def _index(self):
        if self._nodes is not None:
            return
        nodes, parent = {}, {}
        types = self.types
        ren = self.rename

        def visit(root):
            stack = [(root, None)]
            while stack:
                x, p = stack.pop()
                if x is None:
                    continue
                t = x.get("t")
                if isinstance(t, int):
                    x["t"] = types[t]
                if ren:
                    k_ = x.get("k")
                    if k_ in ("ref", "var") and x.get("d") in ren and "n0" not in x:
                        x["n0"], x["n"] = x.get("n"), ren[x["d"]]
                    if k_ == "var" and x.get("bindings"):
                        for b_ in x["bindings"]:
                            if b_.get("d") in ren and "n0" not in b_:
                                b_["n0"], b_["n"] = b_.get("n"), ren[b_["d"]]
                    if k_ == "lambda" and x.get("caps"):
                        for c_ in x["caps"]:
                            if c_.get("d") in ren and "n0" not in c_:
                                c_["n0"], c_["n"] = c_.get("n"), ren[c_["d"]]
                if x.get("k") == "bin" and x.get("op") in (">", ">=") and len(x.get("c", ())) == 2 and "flipped" not in x:
                    # canonical orientation of built-in comparisons: `a > b` is represented as `b < a` (rules then see one form only)
                    x["c"] = [x["c"][1], x["c"][0]]
                    x["op"] = "<" if x["op"] == ">" else "<="
                    x["flipped"] = True
                    x["src_op"] = ">" if x["op"] == "<" else ">="      # `span` stays in source order (used by selftest/commute.py only)
                if x.get("k") == "bin" and x.get("op") in _COMMUTATIVE and len(x.get("c", ())) == 2 and "ordered" not in x:
                    commutative.append(x)
                if x.get("k") in ("if", "cond") and "polar" not in x:
                    # canonical polarity: `if (!c) A else B` is `if (c) B else A` (likewise `!c ? a : b`); double negations are dropped
                    x["polar"] = True
                    cs = x.get("c", ())
                    r_ = x.get("r")
                    ci = r_.index("cond") if r_ and "cond" in r_ else (0 if x["k"] == "cond" else None)
                    ti = r_.index("then") if r_ and "then" in r_ else (1 if x["k"] == "cond" else None)
                    ei = r_.index("else") if r_ and "else" in r_ else (2 if x["k"] == "cond" and len(cs) == 3 else None)
                    if ci is not None and ti is not None and ei is not None and ci < len(cs) and ei < len(cs) and cs[ci] is not None and cs[ti] is not None and cs[ei] is not None:
                        c_, nots, chain = cs[ci], 0, []
                        while c_ is not None and ((c_.get("k") == "un" and c_.get("op") == "!") or c_.get("k") == "paren") and c_.get("c"):
                            chain.append(c_)
                            nots += c_.get("k") == "un"
                            c_ = c_["c"][0]
                        if nots and c_ is not None:
                            # the CFG refers to the dropped `!` / paren nodes by id: remember what each of them stood for (node, number of negations)
                            left = nots
                            for q in chain:
                                self._stripped[q["i"]] = (c_, left)
                                left -= q.get("k") == "un"
                            cs[ci] = c_
                            if nots % 2:
                                cs[ti], cs[ei] = cs[ei], cs[ti]
                                x["inverted"] = True
                nodes.setdefault(x["i"], x)
                parent[x["i"]] = p
                for ch in reversed(x.get("c", ())):
                    stack.append((ch, x))

        self._nodes, self._parent = nodes, parent
        self._stripped = {}
        commutative = []
        for i in self._inits:
            visit(i)
        if self._body:
            visit(self._body)
        cfg = self.raw.get("cfg")
        if cfg:
            for b in cfg["blocks"]:
                for e in b["el"]:
                    if isinstance(e, dict):
                        if "x" in e:
                            visit(e["x"])
                        if isinstance(e.get("e"), dict) and "x" in e["e"]:
                            visit(e["e"]["x"])
                        tt = e.get("t")
                        if isinstance(tt, int):
                            e["t"] = types[tt]
                c = b.get("cond")
                if isinstance(c, dict) and "x" in c:
                    visit(c["x"])
        for p in self.params:
            if isinstance(p.get("t"), int):
                p["t"] = types[p["t"]]
        self._nodes, self._parent = nodes, parent
        if self.extra_locals and os.environ.get("NANO_NO_INLINE") != "1":
            extra = self._inline_extra_locals()
            commutative.extend(extra)
        if commutative:
            # canonical operand order of the built-in commutative operators `+ * == !=` (exactly commutative, also in IEEE arithmetic):
            # literals last, then by canonical text; innermost first (a visit is pre-order, so reversed order sees descendants first)
            from .pp import operand_key
            for x in reversed(commutative):
                x["ordered"] = True
                a, b = x["c"]
                if a is None or b is None:
                    continue
                if operand_key(b) < operand_key(a):
                    x["c"] = [b, a]
                    x["swapped"] = True

    _PURE_BIN = ("+", "-", "*", "/")

    def _inline_extra_locals(self):
        """A local the baseline does not declare, of the form `const T name = <pure arithmetic>` with T the expression's own type and operands
        that nothing in the function ever writes, is replaced by its initialiser at every use (and its declaration statement dropped from the
        enclosing block): naming a sub-expression is a behaviour-preserving edit and the rules keep seeing the baseline's shape. Anything else
        (operands written somewhere, captured by a lambda, a converting declaration, calls in the initialiser) is left alone."""
        import copy
        roots = list(self._inits) + ([self._body] if self._body else [])
        cfg = self.raw.get("cfg")
        cfg_roots = []
        if cfg:
            for b in cfg["blocks"]:
                for e in b["el"]:
                    if isinstance(e, dict):
                        if "x" in e:
                            cfg_roots.append(e["x"])
                        if isinstance(e.get("e"), dict) and "x" in e["e"]:
                            cfg_roots.append(e["e"]["x"])
                c = b.get("cond")
                if isinstance(c, dict) and "x" in c:
                    cfg_roots.append(c["x"])
        captured = set()

        def writes(subroots):
            """variables / members mentioned in a written position inside the given subtrees (over-approximation)"""
            written, written_mem = set(), set()

            def mark(n, depth=0):
                # the written object is the root of the designator: subscripts / arguments of element accessors are only read
                k = (n or {}).get("k")
                if n is None or depth > 40:
                    return
                if k == "ref":
                    if n.get("d") is not None:
                        written.add(n["d"])
                    return
                if k == "mem":
                    written_mem.add(n.get("n"))
                    for c_ in n.get("c", ())[:1]:
                        mark(c_, depth + 1)
                    return
                if k in ("cast", "paren", "idx") or (k == "un" and n.get("op") == "*") or \
                        (k == "call" and (n.get("ck") == "mem" or (n.get("ck") == "op" and n.get("op") in ("()", "[]", "*", "->")))):
                    cs = n.get("c", ())
                    if cs:
                        mark(cs[0], depth + 1)
                    return
                if k == "bin" and n.get("op") in ("+", "-") and len(n.get("c", ())) == 2:
                    # pointer / iterator arithmetic: the offset operand (a value of arithmetic type) is only read
                    for c_ in n["c"]:
                        t_ = ((c_ or {}).get("t") or "").replace("const ", "").strip()
                        if t_ in _ARITH_TYPES:
                            continue
                        mark(c_, depth + 1)
                    return
                for y in walk(n):
                    if y.get("k") == "ref" and y.get("d") is not None:
                        written.add(y["d"])
                    if y.get("k") == "mem":
                        written_mem.add(y.get("n"))
            for r in subroots:
                for x in walk(r):
                    k = x.get("k")
                    if k == "bin" and x.get("op", "").endswith("=") and x["op"] not in ("==", "!=", "<=", ">="):
                        mark(x["c"][0])
                    elif k == "un" and x.get("op") in ("++", "--", "&"):
                        mark(x["c"][0])
                    elif k in ("call", "construct"):
                        pk = x.get("pk", "")
                        cs = x.get("c", ())
                        off = 1 if k == "call" and (x.get("ck") == "mem" or (x.get("ck") == "op" and x.get("memop"))) else 0
                        if off and not x.get("cconst") and cs and cs[0] is not None and strip_targs(x.get("fn", "")).split("::")[-1] not in _VIEW_ACCESSORS:
                            mark(cs[0])         # (a view accessor does not write by itself; writing through the view is an assignment / by-reference use)
                        if k == "call" and x.get("ck") == "op" and x.get("op", "").endswith("=") and x["op"] not in ("==", "!=", "<=", ">=") and cs and cs[0] is not None:
                            mark(cs[0])
                        for j, a_ in enumerate(cs[off:]):
                            if a_ is not None and j < len(pk) and pk[j] in "rp":
                                mark(a_)
                    elif k == "lambda":
                        for c_ in x.get("caps", ()):
                            if c_.get("d") is not None:
                                captured.add(c_["d"])
                                if c_.get("byref", True):
                                    written.add(c_["d"])
            return written, written_mem
        all_written, _ = writes(roots)

        def pure(n, written, written_mem):
            if n is None:
                return False
            k = n.get("k")
            if k == "ref":
                return n.get("dk") in ("var", "parm", "bind") and n.get("d") not in written and n.get("d") not in self.extra_locals
            if k in ("int", "float", "this"):
                return True
            if k == "mem":
                return n.get("n") not in written_mem and all(pure(c, written, written_mem) for c in n.get("c", ()))
            if k in ("cast", "paren"):
                return all(pure(c, written, written_mem) for c in n.get("c", ()))
            if k == "bin":
                return n.get("op") in self._PURE_BIN and all(pure(c, written, written_mem) for c in n["c"])
            if k == "un":
                return n.get("op") == "-" and pure(n["c"][0], written, written_mem)
            if k == "call" and n.get("ck") == "mem" and n.get("cconst") and len(n.get("c", ())) == 1:
                return pure(n["c"][0], written, written_mem)      # argument-less const member call on an object nothing writes in between
            return False

        def bare(t):
            return (t or "").replace("const ", "").strip()
        inl = {}
        for r in roots:
            for blk in walk(r):
                if blk.get("k") != "block":
                    continue
                cs = blk.get("c", ())
                for k_, st in enumerate(cs):
                    if st is None or st.get("k") != "declstmt" or len(st.get("c", ())) != 1:
                        continue
                    x = st["c"][0]
                    if x is None or x.get("k") != "var" or x.get("d") not in self.extra_locals or x.get("d") in captured or x.get("d") in all_written or \
                            len(x.get("c", ())) != 1 or x["c"][0] is None or x.get("bindings"):
                        continue
                    t = x.get("t") or ""
                    init = x["c"][0]
                    while init.get("k") in ("paren",) and init.get("c"):
                        init = init["c"][0]
                    if not (t.startswith("const ") and "&" not in t and "*" not in t and bare(t) == bare(init.get("t"))):
                        continue
                    # every use lies in a later statement of the same block, and nothing from the declaration to the last use writes an operand
                    uses_total = sum(1 for r2 in roots for y in walk(r2) if y.get("k") == "ref" and y.get("d") == x["d"])
                    last, inside = k_, 0
                    for j in range(k_ + 1, len(cs)):
                        cnt = sum(1 for y in walk(cs[j]) if y.get("k") == "ref" and y.get("d") == x["d"]) if cs[j] is not None else 0
                        if cnt:
                            last, inside = j, inside + cnt
                    if inside != uses_total or inside == 0:
                        continue
                    w, wm = writes([c_ for c_ in cs[k_ + 1:last + 1] if c_ is not None])
                    if x["d"] in captured:
                        continue
                    if pure(init, w, wm):
                        inl[x["d"]] = init
        if not inl:
            return []
        fresh = [max(list(self._nodes) + [0]) + 1]
        added = []

        def clone(n):
            c = copy.deepcopy(n)
            for y in walk(c):
                y["i"] = fresh[0]
                fresh[0] += 1
                y.pop("span", None)
                if y.get("k") == "bin" and y.get("op") in _COMMUTATIVE:
                    y.pop("ordered", None)
                    added.append(y)
            return c

        def rewrite(root):
            for x in list(walk(root)):
                cs = x.get("c")
                if not cs:
                    continue
                for j, ch in enumerate(cs):
                    if ch is not None and ch.get("k") == "ref" and ch.get("d") in inl:
                        cs[j] = clone(inl[ch["d"]])
                        self.inlined += 1
                if x.get("k") == "block":
                    keep = [ch for ch in cs if not (ch is not None and ch.get("k") == "declstmt" and ch.get("c") and
                                                    all(v is not None and v.get("k") == "var" and v.get("d") in inl for v in ch["c"]))]
                    if len(keep) != len(cs):
                        x["c"] = keep
        for r in roots + cfg_roots:
            rewrite(r)
        # re-index
        nodes, parent = {}, {}
        for r in roots + cfg_roots:
            stack = [(r, None)]
            while stack:
                x, p_ = stack.pop()
                if x is None:
                    continue
                nodes.setdefault(x["i"], x)
                parent.setdefault(x["i"], p_)
                for ch in reversed(x.get("c", ())):
                    stack.append((ch, x))
        self._nodes, self._parent = nodes, parent
        return added

    def node(self, i):
        self._index()
        return self._nodes.get(i)

    def parent_of(self, n):
        self._index()
        return self._parent.get(n["i"])

    def ancestors(self, n):
        p = self.parent_of(n)
        while p is not None:
            yield p
            p = self.parent_of(p)

    def nodes(self):
        """pre-order over initialisers and body"""
        self._index()
        for i in self._inits:
            yield from walk(i)
        yield from walk(self._body)

    def calls(self, pred=None):
        for n in self.nodes():
            if n["k"] == "call" and (pred is None or pred(n)):
                yield n

    @property
    def cfg(self):
        if self._cfg is None:
            self._index()
            from . import cfg as _cfg
            self._cfg = _cfg.CFG(self)
        return self._cfg

    def param(self, name):
        for p in self.params:
            if p["n"] == name:
                return p
        return None

    def __repr__(self):
        return "<fn %s @%s>" % (self.key[:80], self.loc())


class Facts:
    def __init__(self, tus, quiet=False):
        t0 = time.time()
        self.tus = list(tus)
        files, self.extracted, self.extract_s = extract(self.tus)
        self.functions = {}   # (key, file, line) -> Function
        self.by_qn = {}
        self.by_file = {}
        self.by_key = {}
        self.by_lid = {}
        self.classes = {}
        self.enums = {}
        self.aliases = {}
        self.gvars = {}
        for tu, path in zip(self.tus, files):
            with open(path) as fh:
                d = json.load(fh)
            if d.get("errors"):
                raise AnalysisBroken("parse errors in " + tu)
            types = d["types"]
            for rf in d["functions"]:
                ident = (rf["key"], rf["file"], rf["line"])
                if ident in self.functions:
                    continue
                f = Function(rf, types, tu)
                self.functions[ident] = f
                self.by_qn.setdefault(f.qn, []).append(f)
                self.by_file.setdefault(f.relfile, []).append(f)
                self.by_key.setdefault(f.key, []).append(f)
                if "lid" in rf:
                    self.by_lid.setdefault(rf["lid"], []).append(f)
            for c in d["classes"]:
                if c["key"] not in self.classes:
                    for fl in c["fields"]:
                        fl["t"] = types[fl["t"]]
                    for sv in c.get("svars", []):
                        sv["t"] = types[sv["t"]]
                    self.classes[c["key"]] = c
            for e in d["enums"]:
                self.enums.setdefault(e["qn"], e)
            for a in d["aliases"]:
                if a["qn"] not in self.aliases:
                    a["t"] = types[a["t"]]
                    self.aliases[a["qn"]] = a
            for g in d["gvars"]:
                k = (g["qn"], g["file"], g["line"])
                if k not in self.gvars:
                    g["t"] = types[g["t"]]
                    self.gvars[k] = g
        self.renamed = 0
        if os.environ.get("NANO_NO_CANON") != "1":
            self._canonical_names()
        self.load_s = time.time() - t0

    # -- canonical local names -------------------------------------------------------------------------------------------------
    # The rules name local variables and parameters the way the sources name them today (names.json, generated by tools/mknames.py from
    # the tree the rules were written against). A behaviour-preserving rename of a local must not change any verdict: when a function no
    # longer declares all its baseline names, the leftover declarations are aligned in declaration order (same kind, then same type) with the
    # leftover baseline names and printed / looked up under those. Uses are mapped through declaration ids, so using a *different* variable
    # somewhere is not masked. Functions that still have all their baseline names are left untouched.
    def stable_id(self, f):
        if not f.is_lambda:
            sib = sorted({(g.file, g.line) for g in self.by_qn.get(f.qn, []) if g.relfile == f.relfile and len(g.params) == len(f.params)})
            return "%s|%s|%d|%d" % (f.relfile, f.qn, len(f.params), sib.index((f.file, f.line)) if (f.file, f.line) in sib else 0)
        # lambdas: owner id + position among the owner's lambdas (source order)
        owner, chain = f, 0
        while owner is not None and owner.is_lambda and chain < 8:
            ps = self.by_key.get(owner.parent) or []
            owner = ps[0] if ps else None
            chain += 1
        if owner is None or owner.is_lambda:
            return None
        m = re.match(r"lambda@(.*?):(\d+):(\d+)@", f.key)
        if not m:
            return None
        pos = (int(m.group(2)), int(m.group(3)))
        allpos = self._lambda_positions.setdefault(owner.key, None)
        if allpos is None:
            allpos = set()
            for g in self.functions.values():
                if not g.is_lambda:
                    continue
                o2, c2 = g, 0
                while o2 is not None and o2.is_lambda and c2 < 8:
                    ps = self.by_key.get(o2.parent) or []
                    o2 = ps[0] if ps else None
                    c2 += 1
                if o2 is owner:
                    m2 = re.match(r"lambda@(.*?):(\d+):(\d+)@", g.key)
                    if m2:
                        allpos.add((int(m2.group(2)), int(m2.group(3))))
            allpos = sorted(allpos)
            self._lambda_positions[owner.key] = allpos
        return "%s|L%d" % (self.stable_id(owner), allpos.index(pos) if pos in allpos else -1)

    @staticmethod
    def decl_sequence(f):
        """(kind, name, type, decl id) of every parameter / local / structured binding / init-capture of f in declaration order"""
        seq = []
        types = f.types
        for p in f.raw.get("params", []):
            t = p.get("t")
            seq.append(("p", p.get("n") or "", types[t] if isinstance(t, int) else (t or ""), p.get("d")))
        stack = []
        for root in list(f.raw.get("inits", [])) + [f.raw.get("body")]:
            if root is not None:
                stack.append(root)
        order = []
        while stack:
            x = stack.pop()
            if x is None:
                continue
            if x.get("k") == "var":
                t = x.get("t")
                order.append(("v", x.get("n0", x.get("n")) or "", types[t] if isinstance(t, int) else (t or ""), x.get("d"), x.get("i", 0)))
                for b in x.get("bindings", ()):
                    order.append(("b", b.get("n0", b.get("n")) or "", "", b.get("d"), x.get("i", 0)))
            if x.get("k") == "lambda":
                for c_ in x.get("caps", ()):
                    if c_.get("init") and c_.get("d") is not None:
                        order.append(("c", c_.get("n0", c_.get("n")) or "", "", c_.get("d"), x.get("i", 0)))
            for ch in reversed(x.get("c", ())):
                stack.append(ch)
        seen = set()
        for k, n, t, d, i in order:
            if d in seen:
                continue
            seen.add(d)
            seq.append((k, n, t, d))
        return seq

    def _canonical_names(self):
        path = os.path.join(VERIF, "nv", "names.json")
        if not os.path.exists(path):
            return
        with open(path) as fh:
            base = json.load(fh)
        self._lambda_positions = {}
        per_tu = {}
        for f in self.functions.values():
            if not (f.file.startswith(REPO + "/") or "/witness/" in f.file):
                continue
            sid = self.stable_id(f)
            if sid is None or sid not in base:
                continue
            B = base[sid]
            A = self.decl_sequence(f)
            if not A:
                continue
            anames = [a[1] for a in A]
            bnames = [b[1] for b in B]
            if all(bn in anames for bn in bnames):
                extra = {a[3] for a in A if a[0] == "v" and a[1] and a[1] not in bnames and a[3] is not None}
                if extra:
                    f.extra_locals = extra    # new named sub-expressions (see Function._inline_extra_locals)
                continue                      # nothing renamed away
            used_a, used_b = set(), set()
            for i, a in enumerate(A):
                if a[1] in bnames and a[1] and anames.count(a[1]) == 1 and bnames.count(a[1]) == 1:
                    used_a.add(i)
                    used_b.add(bnames.index(a[1]))
            j = 0
            pairs = []
            for i, a in enumerate(A):
                if i in used_a:
                    continue
                while j < len(B) and j in used_b:
                    j += 1
                # next free baseline declaration of the same kind (and type when available)
                k = j
                while k < len(B) and (k in used_b or B[k][0] != a[0]):
                    k += 1
                if k >= len(B):
                    continue
                kt = k
                while kt < len(B) and (kt in used_b or B[kt][0] != a[0] or (B[kt][2] and a[2] and B[kt][2] != a[2])):
                    kt += 1
                if kt < len(B) and kt - k <= 2:
                    k = kt
                pairs.append((i, k))
                used_b.add(k)
            ren = per_tu.setdefault(f.tu, {})
            # the renaming must be a bijection on *names* (several declarations may share a name in different scopes)
            n2b = {anames[i]: anames[i] for i in used_a}
            b2n = dict(n2b)
            ok = True
            local = {}
            for i, k in pairs:
                an, bn = A[i][1], B[k][1]
                if not an and not bn:
                    continue
                if not an or not bn or n2b.get(an, bn) != bn or b2n.get(bn, an) != an:
                    ok = False
                    break
                n2b[an], b2n[bn] = bn, an
                if A[i][3] is not None:
                    local[A[i][3]] = bn
            paired = {p_[0] for p_ in pairs}
            leftover = [a_[1] for i, a_ in enumerate(A) if a_[1] and i not in used_a and i not in paired]
            if not ok or any(n_ in b2n and b2n[n_] != n_ for n_ in leftover):
                continue                      # a collision would make two variables print alike: leave this function alone
            for d_, n_ in local.items():
                ren[d_] = n_
                self.renamed += 1
        for f in self.functions.values():
            ren = per_tu.get(f.tu)
            if ren:
                f.rename = ren
                for p_ in f.params:
                    if p_.get("d") in ren and "n0" not in p_:
                        p_["n0"], p_["n"] = p_.get("n"), ren[p_["d"]]

    # -- queries
    def fn(self, qn, file=None, where=None):
        """functions with the given (template-stripped) qualified name"""
        out = [f for f in self.by_qn.get(qn, []) if (file is None or f.relfile == file) and (where is None or where(f))]
        return out

    def one(self, qn, file=None, where=None):
        out = self.fn(qn, file, where)
        if not out:
            raise AnalysisBroken("anchor function vanished: %s%s" % (qn, " in " + file if file else ""))
        # several template instantiations of one definition: same file/line
        locs = {(f.file, f.line) for f in out}
        if len(locs) > 1:
            raise AnalysisBroken("anchor function ambiguous: %s (%s)" % (qn, sorted(locs)))
        return out[0]

    def in_file(self, relfile):
        return self.by_file.get(relfile, [])

    def cls(self, qn):
        out = [c for c in self.classes.values() if strip_targs(c["qn"]) == qn]
        return out

    def one_cls(self, qn):
        out = self.cls(qn)
        if not out:
            raise AnalysisBroken("anchor class vanished: " + qn)
        return out[0]

    def lambdas_in(self, f, _seen=None):
        """lambda bodies lexically inside function f (any depth, nested lambdas included)"""
        out = []
        seen = _seen if _seen is not None else set()
        for n in f.nodes():
            if n["k"] == "lambda":
                for g in self.by_lid.get(n.get("lid"), []):
                    if id(g) in seen:
                        continue
                    seen.add(id(g))
                    out.append((n, g))
                    out.extend(self.lambdas_in(g, seen))
        return out

    def resolve(self, call):
        """definition(s) of a call's callee, if emitted"""
        k = call.get("key")
        return self.by_key.get(k, []) if k else []
