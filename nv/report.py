"""Obligation bookkeeping, known findings, evidence files and the exit protocol (DESIGN 2.4)."""
import hashlib
import json
import os
import time

from .facts import VERIF, AnalysisBroken

KNOWN = os.path.join(VERIF, "known_findings.json")
OUT = os.environ.get("NANO_OUT", VERIF)


class Report:
    def __init__(self, pid, tier, seed, only=None):
        self.pid = pid
        self.tier = tier
        self.seed = seed
        self.only = only            # replay filter: (rule, instance)
        self.obls = []              # dicts: rule, instance, where, status, detail
        self.floors = []
        self.notes = []
        self.t0 = time.time()
        self.units = []
        self.meta = {}

    # -- obligations
    def _add(self, status, rule, instance, where, detail, nontrivial=True, extra=None):
        if self.only and (rule, instance) != self.only:
            return
        o = {"rule": rule, "instance": instance, "where": where, "status": status, "detail": detail,
             "nontrivial": nontrivial}
        if extra:
            o.update(extra)
        self.obls.append(o)

    def ok(self, rule, instance, where, detail="", nontrivial=True):
        self._add("holds", rule, instance, where, detail, nontrivial)

    def bad(self, rule, instance, where, detail, **extra):
        self._add("violated", rule, instance, where, detail, True, extra)

    def incomplete(self, rule, instance, where, detail):
        self._add("incomplete", rule, instance, where, detail)

    def check(self, cond, rule, instance, where, detail_ok="", detail_bad=None, **extra):
        if cond:
            self.ok(rule, instance, where, detail_ok)
        else:
            self.bad(rule, instance, where, detail_bad or ("expected: " + detail_ok), **extra)
        return cond

    def floor(self, rule, count, minimum, what):
        self.floors.append({"rule": rule, "count": count, "floor": minimum, "what": what})

    def note(self, text):
        self.notes.append(text)

    # -- finish
    def finish(self, meta):
        known = {"findings": [], "fixed": []}
        if os.path.exists(KNOWN):
            with open(KNOWN) as fh:
                known = json.load(fh)
        broken = []
        if not self.only:
            for fl in self.floors:
                if fl["count"] < fl["floor"]:
                    broken.append("rule %s matched %d %s, fewer than the %d confirmed by hand" % (
                        fl["rule"], fl["count"], fl["what"], fl["floor"]))
        for o in self.obls:
            if o["status"] == "incomplete":
                broken.append("%s [%s] at %s: %s" % (o["rule"], o["instance"], o["where"], o["detail"]))
        viol = [o for o in self.obls if o["status"] == "violated"]
        kf_lines, new_viol = [], []
        for o in viol:
            match = None
            for k in known.get("findings", []):
                if k["property"] == self.pid and k["rule"] == o["rule"] and k["instance"] == o["instance"]:
                    match = k
            if match:
                o["status"] = "known-finding"
                kf_lines.append("KNOWN-FINDING: property=%s %s [%s] %s" % (self.pid, o["rule"], o["instance"], match["what"]))
            else:
                new_viol.append(o)
        out_lines = []
        for b in broken:
            out_lines.append("ANALYSIS-BROKEN property=%s %s" % (self.pid, b))
        out_lines += kf_lines
        replays = []
        for o in new_viol:
            h = hashlib.sha256(("%s|%s|%s" % (self.pid, o["rule"], o["instance"])).encode()).hexdigest()[:12]
            d = os.path.join(OUT, "replays")
            os.makedirs(d, exist_ok=True)
            path = os.path.join(d, "%s-%s.json" % (self.pid, h))
            with open(path, "w") as fh:
                json.dump({"property": self.pid, "rule": o["rule"], "instance": o["instance"], "where": o["where"],
                           "detail": o["detail"], "tier": self.tier,
                           "extra": {k: v for k, v in o.items() if k not in ("rule", "instance", "where", "detail", "status", "nontrivial")}},
                          fh, indent=1)
            replays.append(path)
            out_lines.append("  %s [%s] at %s: %s" % (o["rule"], o["instance"], o["where"], o["detail"]))
            out_lines.append("VIOLATION property=%s replay=%s" % (self.pid, path))
        self.write_evidence(meta, broken, len(new_viol))
        n_hold = sum(1 for o in self.obls if o["status"] == "holds")
        out_lines.append("%s %s: %d obligations, %d hold, %d violated (%d known), %d incomplete; %d rules; %.1fs" % (
            self.pid, self.tier, len(self.obls), n_hold, len(viol), len(kf_lines),
            sum(1 for o in self.obls if o["status"] == "incomplete"), len({o["rule"] for o in self.obls}),
            time.time() - self.t0))
        print("\n".join(out_lines))
        if new_viol:
            return 1        # a concrete violation outranks an incomplete analysis
        return 2 if broken else 0

    def write_evidence(self, meta, broken, nviol):
        if self.only:
            return
        distinct = {(o["rule"], o["instance"]) for o in self.obls if o["nontrivial"]}
        by_rule = {}
        for o in self.obls:
            r = by_rule.setdefault(o["rule"], {"instances": 0, "holds": 0, "violated": 0, "incomplete": 0, "known-finding": 0})
            r["instances"] += 1
            r[o["status"]] += 1
        samples = []
        seen_rules = set()
        for o in self.obls:     # first two of each rule, then all non-holding
            key = o["rule"]
            cnt = sum(1 for s in samples if s["rule"] == key)
            if cnt < 3 or o["status"] != "holds":
                samples.append({k: o[k] for k in ("rule", "instance", "where", "status", "detail")})
            seen_rules.add(key)
        ev = {
            "property_id": self.pid,
            "tier": self.tier,
            "seed": self.seed,
            "level": meta.get("level", "other"),
            "coverage": {
                "evaluations": len(self.obls),
                "distinct_nontrivial": len(distinct),
                "rule": meta.get("enumeration", "every site matched by each rule in the analysed translation units is one "
                                 "obligation; an obligation is non-trivial when the site contains a guarded entity"),
                "samples": samples[:120],
                "obligations": len(self.obls),
                "discharged": sum(1 for o in self.obls if o["status"] == "holds"),
                "checker_cmd": "./check %s --tier %s" % (self.pid, self.tier),
                "trusted_base": ["clang 14 parser/sema/CFG", "tools/nanofacts extractor", "nv rule tables confirmed by reading"]
                                + meta.get("trusted", []),
                "explanation": meta.get("explanation", ""),
                "exhaustive": True,
                "units_analysed": self.units,
                "rules": by_rule,
                "floors": self.floors,
                "not_decided": meta.get("not_decided", ""),
                "notes": self.notes,
                "analysis_broken": broken,
            },
            "assumptions": meta.get("assumptions", []),
            "wall_s": round(time.time() - self.t0, 2),
            "violations": nviol,
        }
        ev["coverage"].update(self.meta)
        d = os.path.join(OUT, "evidence")
        os.makedirs(d, exist_ok=True)
        tmp = os.path.join(d, ".%s.json.tmp" % self.pid)
        with open(tmp, "w") as fh:
            json.dump(ev, fh, indent=1)
        os.replace(tmp, os.path.join(d, "%s.json" % self.pid))
