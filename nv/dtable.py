"""K8 decision tables: a function that only compares runtime values is abstracted to its atomic predicates; the induced
decision function is enumerated over all truth assignments by walking the CFG deterministically."""
import itertools

import sympy as sp

from . import kalg
from .pp import pp, skip
from .util import assignment, strip_not, is_literal, literal_value


class Atom:
    def __init__(self, name, relation, positive=()):
        self.name = name
        self.expr, self.strict = kalg.norm_relation(kalg.parse(relation, positive))
        self.text = relation


def classify(f, cond, atoms, conv_atoms=None, seed=0):
    """(atom name, polarity) if the condition equals an atom or its negation, else None"""
    inner, neg = strip_not(cond)
    try:
        cv = kalg.Conv(f, atoms=conv_atoms)
        rel = cv.conv(inner)
    except kalg.OutOfFragment:
        return None
    if isinstance(rel, sp.Eq):
        # x == 0 for a non-negative quantity is x <= 0
        rel = sp.Le(rel.lhs - rel.rhs, 0)
    elif isinstance(rel, sp.Ne):
        rel = sp.Gt(rel.lhs - rel.rhs, 0)
    e, strict = kalg.norm_relation(rel)
    if e is None:
        return None
    for a in atoms:
        # same relation:  e >(=) 0  vs  a.expr >(=) 0
        z, _ = kalg.is_zero(e - a.expr, seed)
        if z and strict == a.strict:
            return a.name, (not neg)
        # negation:  !(a.expr >= 0)  ==  -a.expr > 0
        z, _ = kalg.is_zero(e + a.expr, seed)
        if z and strict != a.strict:
            return a.name, neg
    return None


def enumerate_decisions(f, atoms, conv_atoms=None, seed=0, tracked=None):
    """returns (rows, extra_atoms): rows = list of (assignment dict, outcome) with
    outcome = {'ret': value or text, 'writes': {designator: rhs text}}"""
    cfg = f.cfg
    cond_of = {}
    extra = []
    leaf_cache = {}

    def leaves(n):
        n = skip(n)
        if n["k"] == "bin" and n["op"] in ("&&", "||"):
            return leaves(n["c"][0]) + leaves(n["c"][1])
        if n["k"] == "un" and n["op"] == "!":
            return leaves(n["c"][0])
        return [n]

    def leaf_atom(n):
        if n["i"] not in leaf_cache:
            c = classify(f, n, atoms, conv_atoms, seed)
            if c is None:
                name = "extra:" + pp(n)
                if name not in extra:
                    extra.append(name)
                c = (name, True)
            leaf_cache[n["i"]] = c
        return leaf_cache[n["i"]]

    def truth(n, asg):
        n = skip(n)
        if n["k"] == "bin" and n["op"] == "&&":
            return truth(n["c"][0], asg) and truth(n["c"][1], asg)
        if n["k"] == "bin" and n["op"] == "||":
            return truth(n["c"][0], asg) or truth(n["c"][1], asg)
        if n["k"] == "un" and n["op"] == "!":
            return not truth(n["c"][0], asg)
        name, pol = leaf_atom(n)
        return asg[name] == pol

    for b in cfg.blocks.values():
        if b.cond is None or len([s for s in b.succ if s >= 0]) < 2:
            continue
        cond_of[b.id] = b.cond
        for lf in leaves(b.cond):
            leaf_atom(lf)
    # boolean results returned directly (return a < b;) are decisions too
    ret_of = {}
    for b in cfg.blocks.values():
        for e in b.elems:
            if e.kind == "node" and e.node["k"] == "return" and e.node.get("c"):
                v = e.node["c"][0]
                if literal_value(v) is None:
                    c = classify(f, v, atoms, conv_atoms, seed)
                    if c is not None:
                        ret_of[e.node["i"]] = c
    names = [a.name for a in atoms] + extra
    used = {c[0] for c in leaf_cache.values()} | {c[0] for c in ret_of.values()}
    names = [n for n in names if n in used]
    rows = []
    for bits in itertools.product([False, True], repeat=len(names)):
        asg = dict(zip(names, bits))
        out = {"ret": None, "writes": {}}
        cur, steps = cfg.entry, 0
        while cur is not None and steps < 500:
            steps += 1
            b = cfg.blocks[cur]
            for e in b.elems:
                if e.kind != "node":
                    continue
                n = e.node
                a = assignment(n)
                if a:
                    key = kalg.designator(a[0])
                    if tracked is None or key in tracked:
                        out["writes"][key] = pp(a[1])
                if n["k"] == "return":
                    v = n["c"][0] if n.get("c") else None
                    if n["i"] in ret_of:
                        name, pol = ret_of[n["i"]]
                        out["ret"] = asg[name] == pol
                    else:
                        out["ret"] = literal_value(v) if v is not None and literal_value(v) is not None else (pp(v) if v is not None else None)
            succ = [s for s in b.succ]
            if b.id in cond_of and len(succ) >= 2:
                cur = succ[0] if truth(cond_of[b.id], asg) else succ[1]
            else:
                nxt = [s for s in succ if s >= 0]
                cur = nxt[0] if nxt else None
        rows.append((asg, out))
    return rows, extra
