"""Matchers shared by the rule modules. All matching is on resolved declarations, never spelling."""
from .facts import strip_targs, walk
from .pp import pp, skip, short


def callee(n):
    """template-stripped qualified callee name of a call node ('' otherwise)"""
    if n is None or n["k"] != "call":
        return ""
    return strip_targs(n.get("fn", ""))


def is_call(n, qn=None, name=None):
    if n is None or n["k"] != "call":
        return False
    c = callee(n)
    if qn is not None:
        return c == qn if isinstance(qn, str) else c in qn
    if name is not None:
        s = c.split("::")[-1]
        return s == name if isinstance(name, str) else s in name
    return True


def args(n):
    """explicit arguments of a call (without the implicit object)"""
    c = n.get("c", [])
    if n.get("ck") == "mem":
        return c[1:]
    if n.get("ck") == "op" and n.get("memop"):
        return c[1:]
    if n.get("ck") == "ind":
        return c[1:]
    return c


def obj(n):
    """implicit object of a member call / member operator"""
    c = n.get("c", [])
    if n.get("ck") == "mem" or (n.get("ck") == "op" and n.get("memop")) and c:
        return c[0]
    return None


def strip_not(n):
    """returns (inner, negated)"""
    neg = False
    n = skip(n)
    while n is not None:
        if n["k"] == "un" and n["op"] == "!":
            neg = not neg
            n = skip(n["c"][0])
        elif n["k"] == "call" and n.get("ck") == "op" and n.get("op") == "!" and len(n.get("c", ())) == 1:
            neg = not neg       # e.g. !stream (std::basic_ios::operator!)
            n = skip(n["c"][0])
        else:
            break
    return n, neg


def same_type(a, b):
    norm = lambda t: (t or "?").replace("const ", "").replace(" &", "").strip()
    return norm(a) == norm(b)


def ref_decl(n):
    """declaration id if the node is a plain reference to a local/param/binding"""
    n = skip(n)
    while n is not None:
        if n["k"] == "cast" and not n.get("ex"):
            n = skip(n["c"][0])
        elif n["k"] == "construct" and len(n.get("c", ())) == 1 and same_type(n.get("t"), skip(n["c"][0]).get("t")):
            n = skip(n["c"][0])     # copy through a (templated) same-type constructor
        else:
            break
    if n is not None and n["k"] == "ref":
        return n["d"]
    return None


def unwrap_view(n):
    """peel conversions of a tensor into one of its map/view types (same storage) and value-preserving casts"""
    n = skip(n)
    for _ in range(8):
        if n is None:
            return n
        if n["k"] == "construct" and len(n.get("c", ())) == 1 and strip_targs(n.get("cls", "")) in ("nano::tensor_t", "Eigen::Map", "Eigen::Ref"):
            n = skip(n["c"][0])
        elif n["k"] == "cast" and n.get("c"):
            n = skip(n["c"][0])
        elif n["k"] == "call" and n.get("ck") == "mem" and not args(n) and callee(n).split("::")[-1] in ("vector", "tensor", "array", "matrix"):
            n = skip(n["c"][0])
        else:
            break
    return n


def ref_decl_v(n):
    """like ref_decl, looking through tensor view conversions"""
    return ref_decl(unwrap_view(n))


def is_ref_to(n, d):
    return ref_decl(n) == d


def is_literal(n, value=None):
    n = skip(n)
    while n is not None and n["k"] == "cast":
        n = skip(n["c"][0])
    if n is None or n["k"] not in ("int", "float", "bool"):
        return False
    return value is None or n["v"] == value


def literal_value(n):
    n = skip(n)
    neg = False
    while n is not None and (n["k"] == "cast" or (n["k"] == "un" and n["op"] in "+-")):
        if n["k"] == "un" and n["op"] == "-":
            neg = not neg
        n = skip(n["c"][0])
    if n is None:
        return None
    if n["k"] in ("int", "float", "bool"):
        return -n["v"] if neg else n["v"]
    if n["k"] == "ref" and "cv" in n:
        return -n["cv"] if neg else n["cv"]
    return None


ASSIGN_OPS = {"=", "+=", "-=", "*=", "/=", "%=", "&=", "|=", "^=", "<<=", ">>="}


def assignment(n):
    """(lhs, rhs, op) if n is an assignment / compound assignment (builtin or overloaded), else None"""
    if n is None:
        return None
    if n["k"] == "bin" and n["op"] in ASSIGN_OPS:
        return n["c"][0], n["c"][1], n["op"]
    if n["k"] == "call" and n.get("ck") == "op" and n.get("op") in ASSIGN_OPS and len(n.get("c", ())) == 2:
        return n["c"][0], n["c"][1], n["op"]
    return None


def incdec(n):
    if n is None:
        return None
    if n["k"] == "un" and n["op"] in ("++", "--"):
        return n["c"][0], n["op"]
    if n["k"] == "call" and n.get("ck") == "op" and n.get("op") in ("++", "--"):
        return n["c"][0], n["op"]
    return None


def root_of(n):
    """root object of an access path: follows member accesses, subscripts, member calls and derefs.
    returns ('this', None) | ('var', decl id) | ('other', node)"""
    n = skip(n)
    for _ in range(64):
        if n is None:
            return ("other", None)
        k = n["k"]
        if k == "this":
            return ("this", None)
        if k == "ref":
            return ("var", n["d"]) if n.get("dk") in ("var", "parm", "bind") else ("global", n["n"])
        if k == "mem" or k == "idx":
            n = skip(n["c"][0])
        elif k == "un" and n["op"] in ("*", "&"):
            n = skip(n["c"][0])
        elif k == "cast":
            n = skip(n["c"][0])
        elif k == "call" and n.get("ck") in ("mem",) and n.get("c"):
            n = skip(n["c"][0])
        elif k == "call" and n.get("ck") == "op" and n.get("c"):
            n = skip(n["c"][0])
        else:
            return ("other", n)
    return ("other", None)


def member_path(n):
    """for this->a.b style accesses returns the first field name accessed on `this` (or None)"""
    n = skip(n)
    last = None
    for _ in range(64):
        if n is None:
            return None
        k = n["k"]
        if k == "this":
            return last
        if k == "mem":
            if n.get("fd"):
                last = n["n"]
            n = skip(n["c"][0])
        elif k in ("idx", "cast") or (k == "un" and n["op"] in ("*", "&")):
            n = skip(n["c"][0])
        elif k == "call" and n.get("ck") in ("mem", "op") and n.get("c"):
            n = skip(n["c"][0])
        else:
            return None
    return None


NONMUTATING = {"operator[]", "begin", "end", "cbegin", "cend", "rbegin", "rend", "at", "front", "back", "data", "size", "empty", "find",
               "array", "matrix", "vector", "tensor", "slice", "reshape", "dims", "rows", "cols", "operator()", "segment", "transpose",
               "get", "operator*", "operator->", "value", "count", "lower_bound", "upper_bound"}


def is_accessor_call(x):
    """non-const overloads of element/iterator accessors do not modify the container themselves"""
    return callee(x).split("::")[-1] in NONMUTATING


def writes_in(f, n):
    """yield (target_node, kind, site_node) for writes syntactically inside n:
    kind in {'assign', 'incdec', 'nonconst-call', 'byref-arg'}"""
    for x in walk(n):
        a = assignment(x)
        if a:
            yield a[0], "assign", x
            continue
        i = incdec(x)
        if i:
            yield i[0], "incdec", x
            continue
        if x["k"] == "call":
            if x.get("ck") == "mem" and not x.get("cconst") and not x.get("static") and x.get("c") and not is_accessor_call(x):
                yield x["c"][0], "nonconst-call", x
            elif x.get("ck") == "op" and x.get("memop") and not x.get("cconst") and x.get("c") and not is_accessor_call(x):
                yield x["c"][0], "nonconst-call", x
            pk = x.get("pk", "")
            for j, a_ in enumerate(args(x)):
                if j < len(pk) and pk[j] in "rp":
                    yield a_, "byref-arg", x
        elif x["k"] == "construct" and not (strip_targs(x.get("cls", "")) == "nano::tensor_t" and len(x.get("c", ())) == 1 and
                                          "tensor_t<" in ((x["c"][0] or {}).get("t") or "")):
            pk = x.get("pk", "")
            for j, a_ in enumerate(x.get("c", ())):
                if j < len(pk) and pk[j] in "rp":
                    yield a_, "byref-arg", x


def parameter_name(n):
    """for parameter("name") / parameter("name").value<T>() chains returns the parameter name string"""
    for x in walk(n):
        if x["k"] == "call" and callee(x) in ("nano::configurable_t::parameter",):
            for y in walk(x):
                if y["k"] == "str":
                    return y["v"]
    return None


def find_var(f, decl_id):
    """the var node declaring decl_id (or the decomposition holding a binding with that id)"""
    for n in f.nodes():
        if n["k"] == "var":
            if n.get("d") == decl_id:
                return n, None
            for bi, b in enumerate(n.get("bindings", ())):
                if b["d"] == decl_id:
                    return n, bi
    return None, None


def where(f, n):
    return f.loc(n)


# ---------------------------------------------------------------------------------------------- alpha-equivalence
import re as _re

_TOK = _re.compile(r"[A-Za-z_][A-Za-z0-9_]*|\d+(?:\.\d+)?|\S")
_IDENT = _re.compile(r"[A-Za-z_][A-Za-z0-9_]*$")


class Alpha:
    """Compares printed code with an expected text modulo a consistent renaming of the local variables / parameters in scope.
    The expected texts are written with the names the code has today; a behaviour-preserving rename of a local must not change any
    verdict, while using a *different* variable in one place conflicts with the bindings made by the other comparisons.
    Bindings (expected name <-> actual name) are shared by all comparisons made through one Alpha object."""

    def __init__(self, F, *fns):
        from .pp import pp as _pp
        self._pp = _pp
        self.names = set()
        self.fwd, self.bwd = {}, {}
        seen = set()
        work = list(fns)
        while work:
            f = work.pop()
            if f is None or f.key in seen:
                continue
            seen.add(f.key)
            for p in f.params:
                if p.get("n"):
                    self.names.add(p["n"])
            for v in f.nodes():
                if v["k"] == "var":
                    if v.get("n"):
                        self.names.add(v["n"])
                    for b in v.get("bindings", ()):
                        self.names.add(b["n"])
            if F is not None:
                for _, g in F.lambdas_in(f):
                    work.append(g)
                if f.is_lambda and f.parent:
                    work.extend(F.by_key.get(f.parent, [])[:1])

    def _text(self, x):
        return x if isinstance(x, str) else self._pp(x)

    def eq(self, actual, expected, commit=True):
        if actual is None:
            return False
        A = _TOK.findall(self._text(actual))
        E = _TOK.findall(expected)
        if len(A) != len(E):
            return False
        fwd, bwd = dict(self.fwd), dict(self.bwd)
        for i, (a, e) in enumerate(zip(A, E)):
            member = i > 0 and A[i - 1] in (".", ">") and (A[i - 1] == "." or (i > 1 and A[i - 2] == "-"))
            scoped = i > 0 and A[i - 1] == ":"
            if _IDENT.match(a) and _IDENT.match(e) and not member and not scoped and (a in self.names or e in fwd or a in bwd):
                if fwd.get(e, a) != a or bwd.get(a, e) != e:
                    return False
                if a in self.names:
                    fwd[e], bwd[a] = a, e
                elif a != e:
                    return False
            elif a != e:
                return False
        if commit:
            self.fwd, self.bwd = fwd, bwd
        return True

    def any(self, nodes, expected):
        """first node alpha-equal to expected (bindings committed for it)"""
        for n in nodes:
            if self.eq(n, expected):
                return n
        return None

    def name(self, expected_name):
        return self.fwd.get(expected_name, expected_name)

    def canon(self, actual):
        """text with bound actual names replaced by their expected names (for messages / set comparisons)"""
        toks = _TOK.findall(self._text(actual))
        out = []
        for i, t in enumerate(toks):
            member = i > 0 and (toks[i - 1] == "." or (toks[i - 1] == ">" and i > 1 and toks[i - 2] == "-"))
            out.append(self.bwd.get(t, t) if not member else t)
        return " ".join(out)

    def bind(self, expected_name, actual_name):
        if actual_name is None:
            return False
        if self.fwd.get(expected_name, actual_name) != actual_name or self.bwd.get(actual_name, expected_name) != expected_name:
            return False
        self.fwd[expected_name], self.bwd[actual_name] = actual_name, expected_name
        return True

    def bind_params(self, f, expected_names):
        ok = len(f.params) >= len(expected_names)
        for p, e in zip(f.params, expected_names):
            if e and p.get("n"):
                ok = self.bind(e, p["n"]) and ok
        return ok

    def var(self, f, expected_name, init=None):
        """the var node playing the role `expected_name`: by an existing binding, else by its initialiser text, else by name"""
        cands = [v for v in f.nodes() if v["k"] == "var"]
        if expected_name in self.fwd:
            m = [v for v in cands if v["n"] == self.fwd[expected_name]]
            return m[0] if len(m) == 1 else None
        if init is not None:
            m = [v for v in cands if v.get("c") and v["n"] not in self.bwd and self.eq(v["c"][0], init, commit=False)]
            if len(m) == 1:
                self.eq(m[0]["c"][0], init)
                self.bind(expected_name, m[0]["n"])
                return m[0]
            return None
        m = [v for v in cands if v["n"] == expected_name]
        if len(m) == 1:
            self.bind(expected_name, expected_name)
            return m[0]
        return None
