"""Kernel algebra (DESIGN 2.3): converts loop-free scalar / element-wise expression trees to sympy and
compares them with stated formulas. Anything outside the vocabulary raises OutOfFragment, which the
rules report as analysis-incomplete (never pass, never violation)."""
import random
import re

import sympy as sp

from .facts import strip_targs, walk
from .pp import pp, skip, short
from .util import args, assignment, callee, incdec, obj, ref_decl, find_var


class OutOfFragment(Exception):
    pass


def sym(name, **kw):
    return sp.Symbol(re.sub(r"[^A-Za-z0-9_]", "_", name), real=True, **kw)


UNARY_METHODS = {
    "array": lambda x: x, "matrix": lambda x: x, "transpose": lambda x: x, "eval": lambda x: x, "vector": lambda x: x,
    "square": lambda x: x ** 2, "abs": sp.Abs, "abs2": lambda x: x ** 2, "exp": sp.exp, "log": sp.log, "sqrt": sp.sqrt,
    "sign": sp.sign, "atan": sp.atan, "tanh": sp.tanh, "cube": lambda x: x ** 3, "inverse": lambda x: 1 / x,
    "cwiseAbs": sp.Abs, "cwiseAbs2": lambda x: x ** 2, "cwiseSqrt": sp.sqrt, "cos": sp.cos, "sin": sp.sin,
    "log1p": lambda x: sp.log(1 + x), "cwiseInverse": lambda x: 1 / x,
}
FREE_FUNCS = {
    "std::fabs": sp.Abs, "std::abs": sp.Abs, "fabs": sp.Abs, "abs": sp.Abs, "std::sqrt": sp.sqrt, "sqrt": sp.sqrt, "std::exp": sp.exp, "exp": sp.exp,
    "std::log": sp.log, "log": sp.log, "std::log1p": lambda x: sp.log(1 + x), "log1p": lambda x: sp.log(1 + x),
    "std::atan": sp.atan, "atan": sp.atan, "std::tanh": sp.tanh, "std::cos": sp.cos, "std::sin": sp.sin, "cos": sp.cos, "sin": sp.sin,
    "nano::square": lambda x: x ** 2, "nano::cube": lambda x: x ** 3, "nano::quartic": lambda x: x ** 4,
    "std::floor": sp.floor, "std::ceil": sp.ceiling, "floor": sp.floor, "ceil": sp.ceiling,
    "std::expm1": lambda x: sp.exp(x) - 1, "std::isfinite": None,
}
BIN_FUNCS = {
    "std::max": sp.Max, "std::min": sp.Min, "std::pow": lambda a, b: a ** b, "pow": lambda a, b: a ** b,
    "std::fmax": sp.Max, "std::fmin": sp.Min, "fmax": sp.Max, "fmin": sp.Min,
}


_INTEGRAL = {"int", "long", "unsigned long", "unsigned int", "short", "unsigned short", "long long", "unsigned long long", "signed char", "unsigned char", "char"}


def _integral(t):
    return (t or "").replace("const ", "").strip() in _INTEGRAL


class Conv:
    """tree -> sympy. `atoms` maps canonical text (pp) of opaque sub-expressions to symbol names;
    `funcs` maps qualified callee names to python callables on sympy args."""

    def __init__(self, f, atoms=None, funcs=None, inline=True, scalar=False, subst=None, methods=None, positive=()):
        self.f = f
        self.atoms = dict(atoms or {})
        self.funcs = dict(funcs or {})
        self.methods = dict(methods or {})
        self.inline = inline
        self.scalar = scalar          # 1x1 instance: dot/products become multiplication, reductions identity
        self.subst = dict(subst or {})  # decl id -> sympy expr
        self.positive = set(positive)
        self.used = {}
        self._assigned = None
        self.depth = 0

    def symbol(self, name):
        s = sym(name, positive=True) if name in self.positive else sym(name)
        self.used[name] = s
        return s

    def assigned_decls(self):
        if self._assigned is None:
            s = {}
            for n in self.f.nodes():
                a = assignment(n) or incdec(n)
                if a:
                    d = ref_decl(a[0])
                    if d is not None:
                        s[d] = s.get(d, 0) + 1
            self._assigned = s
        return self._assigned

    def conv(self, n):
        self.depth += 1
        try:
            if self.depth > 200:
                raise OutOfFragment("expression too deep")
            return self._conv(n)
        finally:
            self.depth -= 1

    def _conv(self, n):
        n = skip(n)
        if n is None:
            raise OutOfFragment("empty expression")
        text = pp(n)
        if text in self.atoms:
            a = self.atoms[text]
            return a if isinstance(a, sp.Basic) else self.symbol(a)
        k = n["k"]
        c = n.get("c", ())
        if k == "int":
            return sp.Integer(n["v"])
        if k == "float":
            return sp.Rational(repr(n["v"])) if abs(n["v"]) < 1e15 else sp.Float(n["v"])
        if k == "bool":
            return sp.true if n["v"] else sp.false
        if k == "cast":
            if n.get("ck") in ("FloatingToIntegral",):
                raise OutOfFragment("truncating cast in " + text)
            return self.conv(c[0])
        if k == "ref":
            if "cv" in n and n.get("dk") in ("gvar", "enum"):
                v = n["cv"]
                return sp.Integer(v) if isinstance(v, int) else sp.Rational(repr(v))
            d = n["d"]
            if d in self.subst:
                return self.subst[d]
            if n.get("dk") in ("var", "bind") and self.inline:
                var, bi = find_var(self.f, d)
                if var is not None and bi is None and var.get("c") and not self.assigned_decls().get(d):
                    init = skip(var["c"][0])
                    if init["k"] not in ("lambda",) and not var.get("isref") == "r":
                        try:
                            return self.conv(init)
                        except OutOfFragment:
                            pass
            if n.get("dk") in ("var", "parm", "bind"):
                return self.symbol(n["n"])
            raise OutOfFragment("unknown reference " + text)
        if k == "mem":
            base = skip(c[0]) if c else None
            if base is not None and base["k"] == "this":
                return self.symbol(n["n"])
            if base is not None and base["k"] == "ref":
                return self.symbol(base["n"] + "_" + n["n"])
            raise OutOfFragment("member access " + text)
        if k == "un":
            x = self.conv(c[0])
            if n["op"] == "-":
                return -x
            if n["op"] == "+":
                return x
            if n["op"] == "!":
                return sp.Not(x)
            raise OutOfFragment("unary " + n["op"])
        if k == "bin":
            if n["op"] == "/" and _integral(n.get("t")):
                # C++ integer division truncates: do not model it as the rational quotient
                a, b = self.conv(c[0]), self.conv(c[1])
                q = a / b
                return q if (q.is_Integer or getattr(self, "rational_int_div", False)) else sp.floor(q)
            return self.binop(n["op"], self.conv(c[0]), self.conv(c[1]), text)
        if k == "cond":
            cnd = self.conv(c[0])
            return sp.Piecewise((self.conv(c[1]), cnd), (self.conv(c[2]), True))
        if k == "call":
            return self.call(n, text)
        if k == "construct" and len(c) == 1:
            return self.conv(c[0])
        if k == "initlist" and len(c) == 1:
            return self.conv(c[0])
        raise OutOfFragment("node kind %s in %s" % (k, text))

    def binop(self, op, a, b, text=""):
        if op == "+":
            return a + b
        if op == "-":
            return a - b
        if op == "*":
            return a * b
        if op == "/":
            return a / b
        if op == "<":
            return sp.Lt(a, b)
        if op == "<=":
            return sp.Le(a, b)
        if op == ">":
            return sp.Gt(a, b)
        if op == ">=":
            return sp.Ge(a, b)
        if op == "==":
            return sp.Eq(a, b)
        if op == "!=":
            return sp.Ne(a, b)
        if op == "&&":
            return sp.And(a, b)
        if op == "||":
            return sp.Or(a, b)
        raise OutOfFragment("binary operator %s in %s" % (op, text))

    def call(self, n, text):
        ck = n.get("ck")
        qn = callee(n)
        name = qn.split("::")[-1]
        c = n.get("c", ())
        if qn in self.funcs:
            return self.funcs[qn](*[self.conv(a) for a in args(n)])
        if ck == "op":
            op = n.get("op")
            if len(c) == 2 and op in ("+", "-", "*", "/", "<", "<=", ">", ">=", "==", "!="):
                return self.binop(op, self.conv(c[0]), self.conv(c[1]), text)
            if len(c) == 1 and op == "-":
                return -self.conv(c[0])
            if op == "()" and len(c) >= 1:
                # element access x(i): element-wise view => the element symbol is the container symbol
                if self.scalar or len(c) == 2:
                    return self.conv(c[0])
            raise OutOfFragment("operator %s in %s" % (op, text))
        if ck == "mem":
            o = c[0]
            a = c[1:]
            if name in self.methods:
                return self.methods[name](self, o, a)
            if name.startswith("operator "):
                return self.conv(o)
            if not a and name in UNARY_METHODS and UNARY_METHODS[name] is not None:
                return UNARY_METHODS[name](self.conv(o))
            if len(a) == 1 and name in ("max", "cwiseMax"):
                return sp.Max(self.conv(o), self.conv(a[0]))
            if len(a) == 1 and name in ("min", "cwiseMin"):
                return sp.Min(self.conv(o), self.conv(a[0]))
            if len(a) == 1 and name == "pow":
                return self.conv(o) ** self.conv(a[0])
            if len(a) == 1 and name in ("cwiseProduct",):
                return self.conv(o) * self.conv(a[0])
            if len(a) == 1 and name in ("cwiseQuotient",):
                return self.conv(o) / self.conv(a[0])
            if self.scalar:
                if not a and name in ("colwise", "rowwise"):
                    return self.conv(o)         # 1x1 instance: the partial reductions are the identity
                if not a and name in ("sum", "mean", "maxCoeff", "minCoeff", "trace", "asDiagonal", "diagonal", "norm",
                                      "prod"):
                    x = self.conv(o)
                    return sp.Abs(x) if name == "norm" else x
                if not a and name in ("squaredNorm",):
                    return self.conv(o) ** 2
                if not a and name in ("lpNorm",):
                    return sp.Abs(self.conv(o))
                if len(a) == 1 and name == "dot":
                    return self.conv(o) * self.conv(a[0])
            # const accessor without arguments on a named object / this: an opaque scalar atom
            if not a and n.get("cconst"):
                ob = skip(o)
                if ob["k"] == "this":
                    return self.symbol(name)
                if ob["k"] == "ref":
                    return self.symbol(ob["n"] + "_" + name)
            raise OutOfFragment("member call " + text)
        if qn in FREE_FUNCS and FREE_FUNCS[qn] is not None and len(c) == 1:
            return FREE_FUNCS[qn](self.conv(c[0]))
        if qn in BIN_FUNCS and len(c) == 2:
            return BIN_FUNCS[qn](self.conv(c[0]), self.conv(c[1]))
        if qn == "std::clamp" and len(c) == 3:
            return sp.Min(sp.Max(self.conv(c[0]), self.conv(c[1])), self.conv(c[2]))
        if qn in ("std::move", "std::forward") and len(c) == 1:
            return self.conv(c[0])
        raise OutOfFragment("call %s in %s" % (qn, text))


# ----------------------------------------------------------------------------------------------

def parse(spec, positive=()):
    names = set(re.findall(r"[A-Za-z_][A-Za-z0-9_]*", spec))
    reserved = {"Abs", "Max", "Min", "sqrt", "exp", "log", "sign", "Piecewise", "floor", "ceiling", "atan", "tanh",
                "And", "Or", "Not", "Eq", "Ne", "Le", "Lt", "Ge", "Gt", "Rational", "Heaviside", "True", "False", "cos", "sin", "pi", "E"}
    loc = {nm: (sym(nm, positive=True) if nm in positive else sym(nm)) for nm in names - reserved}
    return sp.sympify(spec, locals=loc)


def is_zero(e, seed=0, npoints=24):
    """polynomial identity test: symbolic first, then exact/high-precision evaluation at random rational points.
    returns (True, '') or (False, witness string)"""
    try:
        s = sp.simplify(e)
        if s == 0:
            return True, ""
    except Exception:
        pass
    rnd = random.Random(1234567 + seed)
    syms = sorted(e.free_symbols, key=lambda s: s.name)
    tried = 0
    for _ in range(npoints * 4):
        if tried >= npoints:
            break
        pt = {}
        for s in syms:
            v = sp.Rational(rnd.randint(-4000, 4000), rnd.randint(1, 997))
            if s.is_positive:
                v = abs(v) + sp.Rational(1, 997)
            pt[s] = v
        try:
            val = e.subs(pt)
            val = sp.N(val, 60)
        except Exception:
            continue
        if val.has(sp.nan, sp.zoo, sp.oo, -sp.oo) or not val.is_number or not val.is_real:
            continue
        tried += 1
        if abs(val) > sp.Float("1e-40"):
            return False, "differs by %s at %s" % (sp.N(val, 8), {str(k): str(v) for k, v in pt.items()})
    if tried < max(4, npoints // 3):
        return None, "could not evaluate the difference at enough points"
    return True, ""


def norm_relation(rel):
    """canonical (expr, strict) meaning expr >= 0 (or > 0)"""
    if isinstance(rel, sp.Le):
        return rel.rhs - rel.lhs, False
    if isinstance(rel, sp.Lt):
        return rel.rhs - rel.lhs, True
    if isinstance(rel, sp.Ge):
        return rel.lhs - rel.rhs, False
    if isinstance(rel, sp.Gt):
        return rel.lhs - rel.rhs, True
    return None, None


def compare_relation(f, node, spec, atoms=None, seed=0, **kw):
    """node is a comparison; spec a string 'lhs <= rhs'. Returns (True/False/None, detail)"""
    try:
        cv = Conv(f, atoms=atoms, **kw)
        got = cv.conv(node)
    except OutOfFragment as e:
        return None, "out of fragment: %s" % e
    want = parse(spec, kw.get("positive", ()))
    ge, gs = norm_relation(got)
    we, ws = norm_relation(want)
    if ge is None or we is None:
        return None, "not a relation: %s" % got
    if gs != ws:
        return False, "strictness differs (code %s, stated %s)" % ("strict" if gs else "non-strict", "strict" if ws else "non-strict")
    z, wit = is_zero(ge - we, seed)
    if z is None:
        return None, wit
    return z, wit if not z else ""


def compare_expr(f, node, spec, atoms=None, seed=0, **kw):
    try:
        cv = Conv(f, atoms=atoms, **kw)
        got = cv.conv(node)
    except OutOfFragment as e:
        return None, "out of fragment: %s" % e
    want = parse(spec, kw.get("positive", ())) if isinstance(spec, str) else spec
    z, wit = is_zero(got - want, seed)
    if z is None:
        return None, wit
    return z, ("code computes %s; %s" % (got, wit)) if not z else ""


# ----------------------------------------------------------------------------------------------
# straight-line symbolic execution of assignment statements (used for small update kernels)

_VIEW_CALLS = (".array()", ".matrix()", ".vector()", ".transpose()", ".colwise()", ".rowwise()", ".eval()")


def designator(n):
    """canonical text naming the storage an lvalue expression designates (views stripped)"""
    t = pp(n)
    for v in _VIEW_CALLS:
        t = t.replace(v, "")
    while t.startswith("(") and t.endswith(")"):
        t = t[1:-1]
    return t


class SymExec:
    """executes `x = e`, `x op= e` and `const auto x = e` statements in order; every designator is a symbol until written"""

    def __init__(self, f, atoms=None, scalar=True, funcs=None, positive=()):
        self.f = f
        self.state = {}          # designator -> sympy expr
        self.decl = {}           # decl id -> sympy expr
        self.atoms = dict(atoms or {})
        self.scalar = scalar
        self.funcs = funcs
        self.positive = positive

    def conv(self, n):
        atoms = dict(self.atoms)
        for k, v in self.state.items():
            atoms[k] = v
            for view in _VIEW_CALLS:
                atoms[k + view] = v
        cv = Conv(self.f, atoms=atoms, scalar=self.scalar, subst=self.decl, funcs=self.funcs, inline=False, positive=self.positive)
        cv._conv_orig = cv._conv

        def conv_with_state(node, _cv=cv):
            node2 = skip(node)
            if node2 is not None:
                d = designator(node2)
                if d in self.state:
                    return self.state[d]
            return _cv._conv_orig(node)
        cv._conv = conv_with_state
        return cv.conv(n)

    def run(self, stmts):
        for s in stmts:
            self.step(s)

    def step(self, s):
        s = skip(s)
        if s is None:
            return
        if s["k"] == "declstmt":
            for v in s.get("c", ()):
                if v["k"] == "var" and v.get("c") and not v.get("bindings"):
                    init = skip(v["c"][0])
                    if init["k"] == "lambda":
                        continue
                    if v.get("isref"):
                        # reference / view alias: reads and writes go to the aliased storage
                        self.alias = getattr(self, "alias", {})
                        self.alias[v["n"]] = designator(init)
                        continue
                    self.decl[v["d"]] = self.conv(init)
            return
        a = assignment(s)
        if a:
            lhs, rhs, op = a
            key = designator(lhs)
            key = getattr(self, "alias", {}).get(key, key)
            cur = self.state.get(key)
            if cur is None:
                d = ref_decl(lhs)
                cur = self.decl.get(d) if d is not None and d in self.decl else sym(key)
            val = self.conv(rhs)
            if op == "=":
                new = val
            elif op == "+=":
                new = cur + val
            elif op == "-=":
                new = cur - val
            elif op == "*=":
                new = cur * val
            elif op == "/=":
                new = cur / val
            else:
                raise OutOfFragment("assignment operator " + op)
            d = ref_decl(lhs)
            if d is not None and d in self.decl:
                self.decl[d] = new
            self.state[key] = new
            return
        if s["k"] == "block":
            self.run(s.get("c", ()))
            return
        if s["k"] in ("call", "null") or (s["k"] == "cast" and s.get("ck") == "ToVoid") or s["k"] in ("int",):
            return   # calls without assignment / compiled-out assert() have no tracked effect here
        raise OutOfFragment("statement kind %s: %s" % (s["k"], pp(s)[:80]))


def sign_nonneg(e):
    """True if the sympy expression is provably >= 0 from its shape (squares, abs, max with a non-negative, sums/products/quotients
    of non-negatives, positive symbols); False means unknown"""
    e = sp.sympify(e)
    if e.is_number:
        return bool(e.is_nonnegative)
    if e.is_Symbol:
        return bool(e.is_positive or e.is_nonnegative)
    if isinstance(e, sp.Abs):
        return True
    if isinstance(e, sp.Max):
        return any(sign_nonneg(a) for a in e.args)
    if isinstance(e, sp.Min):
        return all(sign_nonneg(a) for a in e.args)
    if e.is_Pow:
        b, ex = e.args
        if ex.is_number and ex.is_integer and int(ex) % 2 == 0:
            return True
        if ex.is_number and ex.is_integer and int(ex) < 0:
            return sign_nonneg(b)
        if ex == sp.Rational(1, 2):
            return True
        return sign_nonneg(b)
    if e.is_Add:
        return all(sign_nonneg(a) for a in e.args)
    if e.is_Mul:
        neg = 0
        for a in e.args:
            if a.is_number:
                if a.is_nonnegative:
                    continue
                if a.is_negative:
                    neg += 1
                    continue
                return False
            if sign_nonneg(a):
                continue
            return False
        return neg % 2 == 0
    if isinstance(e, (sp.exp,)):
        return True
    if isinstance(e, sp.Piecewise):
        return all(sign_nonneg(a) for a, _ in e.args)
    return False
