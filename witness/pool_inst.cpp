// witness: instantiates the header-only templates of the thread pool the way callers use them
// (parsed by the extractor only; never compiled into anything or run)
#include <nano/core/parallel.h>

void witness_pool(nano::parallel::pool_t& pool, nano::parallel::queue_t& queue)
{
    pool.map(10, [](int, size_t) {});
    pool.map(10, 3, [](int, int, size_t) {});
    pool.map(size_t{10}, [](size_t, size_t) {}, false);
    pool.map(size_t{10}, size_t{3}, [](size_t, size_t, size_t) {}, false);
    pool.enqueue([](size_t) {});
    queue.enqueue([](size_t) {});
}
