// witness: instantiates order statistics and histogram templates (parsed only, never run)
#include <nano/core/histogram.h>
#include <vector>

void witness_stats(std::vector<double>& vd, std::vector<float>& vf, std::vector<int>& vi, std::vector<int64_t>& vl)
{
    (void)nano::percentile(vd.begin(), vd.end(), 10.0);
    (void)nano::percentile(vf.begin(), vf.end(), 10.0);
    (void)nano::percentile(vi.begin(), vi.end(), 10.0);
    (void)nano::percentile_sorted(vd.begin(), vd.end(), 10.0);
    (void)nano::percentile_sorted(vi.begin(), vi.end(), 10.0);
    (void)nano::median(vd.begin(), vd.end());
    (void)nano::median_sorted(vd.begin(), vd.end());
    (void)nano::median(vd.data(), vd.data() + vd.size());

    auto h1 = nano::histogram_t::make_from_percentiles(vd.begin(), vd.end(), 4);
    auto h2 = nano::histogram_t::make_from_ratios(vi.begin(), vi.end(), 4);
    auto h3 = nano::histogram_t::make_from_exponents(vf.begin(), vf.end(), 10.0);
    auto h4 = nano::histogram_t::make_from_thresholds(vl.begin(), vl.end(), nano::make_equidistant_ratios(3));
    (void)h1.bin(1.5);
    (void)h1.bin(1.5F);
    (void)h2.bin(1);
    (void)h3.bin(int64_t{1});
    (void)h4.bin(static_cast<unsigned char>(1));
}
