// witness: instantiates the header-only (de)serialisation templates (parsed only, never run)
#include <nano/tensor/stream.h>
#include <nano/wlearner.h>
#include <string>
#include <vector>

void witness_stream(std::istream& is, std::ostream& os)
{
    nano::tensor_mem_t<double, 3>  t3;
    nano::tensor_mem_t<float, 1>   t1;
    nano::tensor_mem_t<int32_t, 2> i2;
    nano::tensor_mem_t<uint8_t, 4> u4;
    nano::read(is, t3);
    nano::read(is, t1);
    nano::read(is, i2);
    nano::read(is, u4);
    nano::write(os, t3);
    nano::write(os, t1);
    nano::write(os, i2);
    nano::write(os, u4);

    std::vector<double>                          vd;
    std::vector<std::string>                     vs;
    std::vector<nano::tensor_mem_t<double, 3>>   vt;
    std::string                                  s;
    nano::read(is, vd);
    nano::read(is, vs);
    nano::read(is, vt);
    nano::read(is, s);
    nano::write(os, vd);
    nano::write(os, vs);
    nano::write(os, vt);
    nano::write(os, s);

    nano::rwlearner_t               w;
    std::vector<nano::rwlearner_t>  ws;
    nano::read(is, w);
    nano::read(is, ws);
    nano::write(os, w);
    nano::write(os, ws);

    double  d = 0;
    int64_t i = 0;
    nano::read(is, d);
    nano::write(os, d);
    nano::read_cast<int32_t>(is, i);
    nano::write(os, static_cast<int32_t>(i));
}
