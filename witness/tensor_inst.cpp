// witness: instantiates the tensor indexing / view / reshape templates for ranks 1..5 (parsed only, never run)
#include <nano/tensor.h>
#include <nano/tensor/algorithm.h>
#include <nano/tensor/integral.h>
#include <nano/tensor/stack.h>

using namespace nano;

void witness_tensor(tensor_mem_t<double, 1>& t1, tensor_mem_t<double, 2>& t2, tensor_mem_t<double, 3>& t3, tensor_mem_t<double, 4>& t4,
                    tensor_mem_t<int, 5>& t5, const tensor_mem_t<double, 3>& c3, tensor_map_t<double, 3> m3, tensor_cmap_t<double, 3> k3)
{
    // rank 1
    (void)t1(1);
    (void)t1.offset(1);
    (void)t1.offset0();
    (void)t1.offset0(1);
    (void)t1.dims0();
    (void)t1.size();
    (void)t1.vector();
    (void)t1.tensor();
    (void)t1.slice(0, 1);
    (void)t1.reshape(-1);
    (void)t1.reshape(2, -1);
    // rank 2
    (void)t2(1, 2);
    (void)t2.offset(1, 2);
    (void)t2.offset0();
    (void)t2.offset0(1);
    (void)t2.offset0(1, 2);
    (void)t2.dims0();
    (void)t2.dims0(1);
    (void)t2.size();
    (void)t2.vector();
    (void)t2.vector(1);
    (void)t2.matrix();
    (void)t2.tensor();
    (void)t2.tensor(1);
    (void)t2.slice(0, 1);
    (void)t2.reshape(-1);
    (void)t2.reshape(-1, 2);
    (void)t2.reshape(2, 3, -1);
    // rank 3
    (void)t3(1, 2, 3);
    (void)t3.offset(1, 2, 3);
    (void)t3.offset0();
    (void)t3.offset0(1);
    (void)t3.offset0(1, 2);
    (void)t3.offset0(1, 2, 3);
    (void)t3.dims0();
    (void)t3.dims0(1);
    (void)t3.dims0(1, 2);
    (void)t3.size();
    (void)t3.vector();
    (void)t3.vector(1);
    (void)t3.vector(1, 2);
    (void)t3.matrix(1);
    (void)t3.tensor();
    (void)t3.tensor(1);
    (void)t3.tensor(1, 2);
    (void)t3.slice(0, 1);
    (void)t3.reshape(-1);
    (void)t3.reshape(2, -1);
    (void)t3.reshape(2, -1, 3);
    (void)t3.reshape(2, 3, 4, -1);
    // rank 4
    (void)t4(1, 2, 3, 4);
    (void)t4.offset(1, 2, 3, 4);
    (void)t4.offset0();
    (void)t4.offset0(1);
    (void)t4.offset0(1, 2);
    (void)t4.offset0(1, 2, 3);
    (void)t4.offset0(1, 2, 3, 4);
    (void)t4.dims0();
    (void)t4.dims0(1);
    (void)t4.dims0(1, 2);
    (void)t4.dims0(1, 2, 3);
    (void)t4.size();
    (void)t4.vector();
    (void)t4.vector(1);
    (void)t4.vector(1, 2);
    (void)t4.vector(1, 2, 3);
    (void)t4.matrix(1, 2);
    (void)t4.tensor();
    (void)t4.tensor(1);
    (void)t4.tensor(1, 2);
    (void)t4.tensor(1, 2, 3);
    (void)t4.slice(0, 1);
    (void)t4.reshape(-1);
    (void)t4.reshape(-1, 2, 3);
    (void)t4.reshape(2, 3, 4, 5, -1);
    // rank 5
    (void)t5(1, 2, 3, 4, 5);
    (void)t5.offset(1, 2, 3, 4, 5);
    (void)t5.offset0(1, 2, 3);
    (void)t5.dims0(1, 2);
    (void)t5.size();
    (void)t5.vector(1, 2);
    (void)t5.matrix(1, 2, 3);
    (void)t5.tensor(1);
    (void)t5.slice(0, 1);
    (void)t5.reshape(2, -1);
    // const and mapped storages
    (void)c3(1, 2, 3);
    (void)c3.vector(1);
    (void)c3.matrix(1);
    (void)c3.tensor(1);
    (void)c3.slice(0, 1);
    (void)c3.reshape(-1, 2);
    (void)m3(1, 2, 3);
    (void)m3.vector(1);
    (void)m3.tensor(1);
    (void)m3.slice(0, 1);
    (void)m3.reshape(-1, 2);
    (void)k3(1, 2, 3);
    (void)k3.vector(1);
    (void)k3.tensor(1);
    (void)k3.slice(0, 1);
    (void)k3.reshape(-1, 2);
    // storage conversions
    tensor_mem_t<double, 3> o3;
    o3 = m3;
    o3 = k3;
    tensor_mem_t<double, 3> o4(m3);
    tensor_mem_t<double, 3> o5(k3);
    tensor_cmap_t<double, 3> k4(o3);
    tensor_cmap_t<double, 3> k5(m3);
    tensor_map_t<double, 3>  m4(o3);
    m3 = o3;
    m3 = k3;
    m3 = m4;
}

// summed-area tables: narrow inputs accumulated into wide outputs (the reason integral() takes two scalar types)
void witness_integral(tensor_cmap_t<int8_t, 1> a1, tensor_map_t<int32_t, 1> b1, tensor_cmap_t<int8_t, 2> a2, tensor_map_t<int32_t, 2> b2,
                      tensor_cmap_t<uint16_t, 3> a3, tensor_map_t<int64_t, 3> b3, tensor_cmap_t<float, 2> f2, tensor_map_t<double, 2> d2,
                      const tensor_mem_t<int32_t, 2>& i2, tensor_mem_t<int64_t, 2>& o2)
{
    integral(a1, b1);
    integral(a2, b2);
    integral(a3, b3);
    integral(f2, d2);
    integral(i2, o2);
}

// gathers, in-place compaction and stacking
void witness_algorithms(tensor_mem_t<double, 1>& t1, tensor_mem_t<double, 2>& t2, tensor_mem_t<int, 3>& t3, indices_cmap_t indices,
                        const tensor_mem_t<double, 1>& flags, const tensor_mem_t<double, 2>& m1, const tensor_mem_t<double, 2>& m2)
{
    (void)t1.indexed(indices);
    (void)t2.indexed(indices);
    (void)t3.indexed<double>(indices);
    (void)remove_if([&](const tensor_size_t i) { return flags(i) > 0.0; }, t1);
    (void)remove_if([&](const tensor_size_t i) { return flags(i) > 0.0; }, t1, t2);
    (void)stack<double>(tensor_size_t{5}, t1, flags);
    (void)stack<double>(tensor_size_t{4}, tensor_size_t{4}, m1, m2, t1);
}
