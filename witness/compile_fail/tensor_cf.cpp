// compile-fail witnesses for the tensor storage types (parsed only): every line marked EXPECT-ERROR must be rejected by the
// compiler, every other line (the compiling twins) must be accepted.
#include <nano/tensor.h>

using namespace nano;

void twin_and_witness(tensor_mem_t<double, 3>& owner, const tensor_mem_t<double, 3>& cowner, tensor_map_t<double, 3> map,
                      tensor_cmap_t<double, 3> cmap)
{
    // element access
    owner(1, 2, 3) = 1.0;
    map(1, 2, 3)   = 1.0;
    cmap(1, 2, 3) = 1.0; // EXPECT-ERROR: write through a constant map
    cowner(1, 2, 3) = 1.0; // EXPECT-ERROR: write through a const owning tensor

    // resizing
    owner.resize(1, 2, 3);
    map.resize(1, 2, 3); // EXPECT-ERROR: resize of a mutable map
    cmap.resize(1, 2, 3); // EXPECT-ERROR: resize of a constant map
    map.resize(make_dims(1, 2, 3)); // EXPECT-ERROR: resize of a mutable map from dims

    // assignment
    map = owner;
    map = cmap;
    owner = cmap;
    cmap = owner; // EXPECT-ERROR: assignment to a constant map

    // mapping
    tensor_map_t<double, 3>  m1(owner);
    tensor_cmap_t<double, 3> c1(cowner);
    tensor_cmap_t<double, 3> c2(map);
    tensor_map_t<double, 3> m2(cowner); // EXPECT-ERROR: mutable map of a const owning tensor
    tensor_map_t<double, 3> m3(cmap); // EXPECT-ERROR: mutable map of a constant map

    // number of indices
    (void)owner.offset(1, 2, 3);
    (void)owner.offset0(1, 2);
    (void)owner.offset(1, 2); // EXPECT-ERROR: offset with too few indices
    (void)owner.offset(1, 2, 3, 4); // EXPECT-ERROR: offset with too many indices
    (void)owner.matrix(1);
    (void)owner.matrix(); // EXPECT-ERROR: matrix view with the wrong number of indices
    (void)owner.vector(1, 2);
    (void)owner.vector(1, 2, 3); // EXPECT-ERROR: vector view with all indices given
    (void)owner.tensor(1, 2, 3); // EXPECT-ERROR: sub-tensor with all indices given
}
