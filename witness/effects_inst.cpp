// witness for the effect rules of C18: a positive example the const-cast detector must see on every run (parsed only)
struct effects_witness_t
{
    int  m_value{0};
    void poke() const { const_cast<effects_witness_t*>(this)->m_value = 1; }
};

void effects_witness(const effects_witness_t& w)
{
    w.poke();
}
