#!/bin/bash
# confirm_seed.sh <wt> <seed-id> : re-verify a sub-agent's change in its scratch worktree, archive under /verif/seeded/<seed-id>
# (patched: builds, full ctest passes modulo known-flaky, demo fails; unpatched: demo passes)
WT=$1; ID=$2
OUT=/verif/seeded/$ID; mkdir -p $OUT
LOG=$OUT/confirm.log; : > $LOG
cd $WT || exit 2
cp demo/patch.diff $OUT/patch.diff
cp demo/demo.cpp $OUT/demo.cpp 2>/dev/null; cp demo/build_and_run.sh $OUT/build_and_run.sh 2>/dev/null
# make sure the patch is what is applied
git checkout -- src include 2>>$LOG; git apply demo/patch.diff >>$LOG 2>&1 || { echo "patch does not apply" >>$LOG; exit 2; }
ninja -C _build -j12 >>$LOG 2>&1 || { echo "RESULT build-failed-with-patch" | tee -a $LOG; exit 1; }
ctest --test-dir _build -j8 --timeout 900 2>&1 | tail -8 >>$LOG
FAILED=$(grep -E "^\s+[0-9]+ - " $LOG | grep -v "test_program_linear\|test_program_quadratic" | wc -l)
bash demo/build_and_run.sh >$OUT/demo_patched.out 2>&1; RC1=$?
git apply -R demo/patch.diff
ninja -C _build -j12 >>$LOG 2>&1
bash demo/build_and_run.sh >$OUT/demo_orig.out 2>&1; RC0=$?
tail -c 1500 $OUT/demo_patched.out > $OUT/demo_patched.tail; mv $OUT/demo_patched.tail $OUT/demo_patched.out
tail -c 600 $OUT/demo_orig.out > $OUT/demo_orig.tail; mv $OUT/demo_orig.tail $OUT/demo_orig.out
echo "RESULT other_failed_tests=$FAILED demo_patched_rc=$RC1 demo_orig_rc=$RC0" | tee -a $LOG
