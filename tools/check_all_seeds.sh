#!/bin/bash
# runs every archived seeded change against the check of its property (scratch copies; /repo untouched)
cd /verif
for d in seeded/*/; do
  id=$(basename $d); pid=${id%%-*}
  out=$(TAIL=400 tools/check_seed.sh $id $pid 2>&1); rc=$?
  rules=$(echo "$out" | grep -o "^  R-C[0-9]*-[0-9a-z]*" | sort -u | tr -d ' ' | tr '\n' ',')
  echo "$id rc=$rc rules=$rules"
done
