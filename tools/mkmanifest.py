#!/usr/bin/env python3-vt
"""regenerates MANIFEST.json from the rule modules' META and properties.jsonl"""
import importlib
import json
import os
import sys

VERIF = os.path.dirname(os.path.dirname(os.path.abspath(__file__)))
sys.path.insert(0, VERIF)
props = [json.loads(l) for l in open(os.path.join(VERIF, "properties.jsonl"))]
checks, na = [], []
for p in props:
    pid = p["id"]
    path = os.path.join(VERIF, "nv", "rules", pid.lower() + ".py")
    mod = importlib.import_module("nv.rules." + pid.lower()) if os.path.exists(path) else None
    if mod is None or mod.META.get("not_applicable"):
        na.append({"property_id": pid, "reason": (mod.META["not_applicable"] if mod else
                   "check not built yet (build in progress; see DESIGN.md section 8a)")})
        continue
    M = mod.META
    checks.append({
        "property_id": pid,
        "quick_cmd": "./check %s --tier quick" % pid,
        "thorough_cmd": "./check %s --tier thorough" % pid,
        "evidence_file": "evidence/%s.json" % pid,
        "replay_cmd_template": "./check %s --replay {path}" % pid,
        "engine": "nanofacts+nv",
        "level_claimed": {"category": M.get("level", "other"),
                          "text": M["explanation"],
                          "design_ref": "DESIGN.md section 3, " + pid},
        "level_note": "Static conformance to repository-specific rules; necessary conditions of the property only. "
                      "Not decided: " + M.get("not_decided", "-") + ". Trusted base: clang 14 front end and CFG, the "
                      "nanofacts extractor, the frozen instance tables (each confirmed by reading). Assumptions: "
                      + "; ".join(M.get("assumptions", []) or ["none"]),
        "technique": "static analysis: " + M["technique"],
    })
m = {
    "version": 1,
    "setup_cmd": "./setup.sh",
    "hooks": {"guard": "NANO_VERIF", "enable": "no hooks: the analysis reads the unmodified sources of /repo",
              "baseline_off_cmd": "cmake --build /repo/_build -j16 && ctest --test-dir /repo/_build -j8 --timeout 900",
              "source_commits": [], "add_only": True},
    "engines": [{"name": "nanofacts+nv", "path": "tools/nanofacts, nv/",
                 "serves_properties": [c["property_id"] for c in checks],
                 "kind_free_text": "libTooling fact extractor (typed AST + clang CFG per function, template instantiations "
                                   "included) and Python rule modules: must-dataflow, dominance, who-may-write, sibling/table "
                                   "agreement, decision tables, expression algebra (sympy) on extracted kernels"}],
    "checks": checks,
    "not_applicable": na,
    "notes": "All checks decide from /repo's current source without running it. Exit 2 = analysis broken (anchor vanished, "
             "rule matched fewer sites than confirmed by hand, construct outside the analysed fragment).",
}
json.dump(m, open(os.path.join(VERIF, "MANIFEST.json"), "w"), indent=1)
import jsonschema
jsonschema.validate(m, json.load(open("/root/.vp/MANIFEST.schema.json")))
print("MANIFEST: %d checks, %d not applicable" % (len(checks), len(na)))
