#!/usr/bin/env python3-vt
"""regenerates nv/names.json: the names (and types) of the parameters and locals of every library function, in declaration order,
as the sources spell them today. Used only to print renamed locals under the names the rules were written with (nv/facts.py)."""
import json
import os
import sys

os.environ["NANO_NO_CANON"] = "1"
VERIF = os.path.dirname(os.path.dirname(os.path.abspath(__file__)))
sys.path.insert(0, VERIF)
from nv.facts import Facts, repo_sources, REPO  # noqa

tus = [p[len(REPO) + 1:] for p in repo_sources()] + ["witness/" + f for f in sorted(os.listdir(os.path.join(VERIF, "witness"))) if f.endswith(".cpp")]
F = Facts(tus)
F._lambda_positions = {}
out = {}
for f in F.functions.values():
    if not (f.file.startswith(REPO + "/") or "/witness/" in f.file):
        continue
    sid = F.stable_id(f)
    if sid is None:
        continue
    seq = [[k, n, t] for k, n, t, d in F.decl_sequence(f)]
    if not seq:
        continue
    if sid in out and len(out[sid]) >= len(seq):
        continue
    out[sid] = seq
json.dump(out, open(os.path.join(VERIF, "nv", "names.json"), "w"), indent=0, sort_keys=True)
print("names.json: %d functions, %d declarations" % (len(out), sum(len(v) for v in out.values())))
