"""debug helper: python3-vt -m tools.show <tu> <fn-substring> [--cfg]"""
import sys
sys.path.insert(0, '/verif')
from nv.facts import Facts
from nv.pp import pp
F = Facts([sys.argv[1]])
for f in F.functions.values():
    if sys.argv[2] in f.key and (len(sys.argv) < 5 or sys.argv[4] in f.file):
        print("==", f.key, f.loc())
        if '--cfg' in sys.argv:
            c = f.cfg
            for b in sorted(c.blocks.values(), key=lambda b: -b.id):
                print(" B%d succ=%s term=%s cond=%s" % (b.id, b.succ, b.term, pp(b.cond) if b.cond else None))
                for e in b.elems:
                    if e.kind == 'node':
                        if e.node['k'] in ('call', 'bin', 'return', 'var', 'un', 'construct', 'declstmt','initlist'):
                            print("    [%d] %s: %s" % (e.node['i'], e.node['k'], pp(e.node)[:150]))
                    else:
                        print("    ", e.kind, e.info)
        else:
            def dump(n, ind=1):
                if n is None: return
                print("  " * ind + "%s #%d %s" % (n['k'], n['i'], {k: v for k, v in n.items() if k not in ('c', 'i', 'k', 't', 'l', 'key')}))
                for ch in n.get('c', ()): dump(ch, ind + 1)
            for i in f.inits: dump(i)
            dump(f.body)
