#!/bin/bash
# check_base.sh: runs every check against the repository as it was BEFORE the `fix:` commits (scratch copy of that commit's tree;
# /repo is not touched). Expected: exactly the repaired defects are reported again (fixed entries suppress nothing).
cd /verif
BASE=$(git -C /repo log --format='%H %s' | grep -v ' fix:' | head -1 | cut -d' ' -f1)
S=$(mktemp -d /tmp/nvbase_XXXX); mkdir -p $S/repo $S/out
git -C /repo archive $BASE include src cmake CMakeLists.txt | tar -x -C $S/repo
for p in 01 02 03 04 05 06 07 08 09 10 11 12 13 14 15 16 17 18 19 20; do
  NANO_REPO=$S/repo NANO_OUT=$S/out ./check C$p 2>&1 | grep "^  R-\|quick:" | cut -c1-200
done
rm -rf $S
