// nanofacts: libTooling fact extractor for the libnano static checks (see DESIGN.md 2.1).
// For every function defined under the given roots (template instantiations included,
// dependent templates skipped) it emits: metadata, the full statement/expression tree with
// node ids, and the clang CFG (implicit destructors, initialisers, all sub-expressions)
// whose elements reference tree node ids. Classes, enums, aliases and variables too.
#include "clang/Lex/Lexer.h"
#include "clang/AST/ASTConsumer.h"
#include "clang/AST/ExprCXX.h"
#include "clang/AST/RecursiveASTVisitor.h"
#include "clang/AST/StmtCXX.h"
#include "clang/Analysis/CFG.h"
#include "clang/Frontend/CompilerInstance.h"
#include "clang/Frontend/FrontendAction.h"
#include "clang/Tooling/CommonOptionsParser.h"
#include "clang/Tooling/Tooling.h"
#include "llvm/Support/CommandLine.h"
#include "llvm/Support/JSON.h"
#include <cmath>
#include <map>
#include <regex>
#include <set>

using namespace clang;
using namespace clang::tooling;
using llvm::json::Array;
using llvm::json::Object;
using llvm::json::Value;

static llvm::cl::OptionCategory Cat("nanofacts");
static llvm::cl::opt<std::string> Roots("roots", llvm::cl::desc("comma separated path prefixes whose definitions are emitted"),
                                        llvm::cl::init("/repo/"), llvm::cl::cat(Cat));
static llvm::cl::opt<std::string> SkipHdr("skip-hdr", llvm::cl::desc("regex: functions defined in matching files are not emitted"),
                                          llvm::cl::init(""), llvm::cl::cat(Cat));
static llvm::cl::opt<std::string> OutDir("out", llvm::cl::desc("output directory (one json per TU)"), llvm::cl::init("."),
                                         llvm::cl::cat(Cat));

namespace
{
std::vector<std::string> splitRoots()
{
    std::vector<std::string> r;
    std::string              s = Roots.getValue(), cur;
    for (char c : s)
    {
        if (c == ',')
        {
            if (!cur.empty())
                r.push_back(cur);
            cur.clear();
        }
        else
            cur.push_back(c);
    }
    if (!cur.empty())
        r.push_back(cur);
    return r;
}

struct Emitter
{
    ASTContext&           C;
    const SourceManager&  SM;
    PrintingPolicy        PP;
    std::vector<std::string> roots;
    bool                  hasSkip = false;
    std::regex            skipRe;

    std::map<std::string, int> typeIdx;
    Array                      types;

    // per function
    std::map<const Stmt*, int> ids;
    std::map<const Decl*, int> declIds;
    int                        nextId = 0;

    explicit Emitter(ASTContext& c)
        : C(c)
        , SM(c.getSourceManager())
        , PP(c.getPrintingPolicy())
        , roots(splitRoots())
    {
        PP.SuppressTagKeyword = true;
        PP.Bool               = true;
        if (!SkipHdr.getValue().empty())
        {
            hasSkip = true;
            skipRe  = std::regex(SkipHdr.getValue());
        }
    }

    int ty(QualType t)
    {
        std::string s  = t.getCanonicalType().getAsString(PP);
        auto        it = typeIdx.find(s);
        if (it != typeIdx.end())
            return it->second;
        int i      = (int)types.size();
        typeIdx[s] = i;
        types.push_back(s);
        return i;
    }

    std::string fileOf(SourceLocation l) const
    {
        auto p = SM.getPresumedLoc(SM.getExpansionLoc(l));
        return p.isValid() ? std::string(p.getFilename()) : std::string();
    }
    int lineOf(SourceLocation l) const
    {
        auto p = SM.getPresumedLoc(SM.getExpansionLoc(l));
        return p.isValid() ? (int)p.getLine() : 0;
    }
    int colOf(SourceLocation l) const
    {
        auto p = SM.getPresumedLoc(SM.getExpansionLoc(l));
        return p.isValid() ? (int)p.getColumn() : 0;
    }
    bool inRoots(const std::string& f) const
    {
        for (auto& r : roots)
            if (f.compare(0, r.size(), r) == 0)
                return true;
        return false;
    }
    bool wanted(SourceLocation l) const
    {
        auto f = fileOf(l);
        if (f.empty() || !inRoots(f))
            return false;
        if (hasSkip && std::regex_search(f, skipRe))
            return false;
        return true;
    }

    static std::string qn(const NamedDecl* d) { return d ? d->getQualifiedNameAsString() : std::string("?"); }

    std::string diagName(const NamedDecl* d) const
    {
        if (!d)
            return "?";
        std::string              s;
        llvm::raw_string_ostream os(s);
        d->getNameForDiagnostic(os, PP, true);
        return os.str();
    }

    std::string lambdaId(const CXXRecordDecl* r)
    {
        auto        l = r->getLocation();
        std::string k = "lambda@" + fileOf(l) + ":" + std::to_string(lineOf(l)) + ":" + std::to_string(colOf(l));
        // enclosing instantiation, to keep lambdas inside template instantiations apart
        for (const DeclContext* dc = r->getParent(); dc; dc = dc->getParent())
            if (auto* pf = dyn_cast<FunctionDecl>(dc))
            {
                if (!(isa<CXXMethodDecl>(pf) && cast<CXXMethodDecl>(pf)->getParent()->isLambda()))
                {
                    k += "@" + fnKeyPlain(pf);
                    break;
                }
            }
        return k;
    }

    std::string fnKeyPlain(const FunctionDecl* f)
    {
        std::string k = diagName(f);
        k += "(";
        bool first = true;
        for (auto* p : f->parameters())
        {
            if (!first)
                k += ", ";
            first = false;
            k += p->getType().getCanonicalType().getUnqualifiedType().getAsString(PP);
        }
        k += ")";
        return k;
    }

    std::string fnKey(const FunctionDecl* f)
    {
        if (!f)
            return "?";
        std::string k;
        if (auto* m = dyn_cast<CXXMethodDecl>(f); m && m->getParent()->isLambda())
            k = lambdaId(m->getParent());
        else
            k = diagName(f);
        k += "(";
        bool first = true;
        for (auto* p : f->parameters())
        {
            if (!first)
                k += ", ";
            first = false;
            k += p->getType().getCanonicalType().getUnqualifiedType().getAsString(PP);
        }
        k += ")";
        if (auto* m = dyn_cast<CXXMethodDecl>(f); m && m->isConst())
            k += " const";
        return k;
    }

    Array targsOf(const FunctionDecl* f)
    {
        Array a;
        if (f)
            if (auto* tl = f->getTemplateSpecializationArgs())
                for (auto& ta : tl->asArray())
                {
                    std::string              s;
                    llvm::raw_string_ostream os(s);
                    ta.print(PP, os, true);
                    a.push_back(os.str());
                }
        return a;
    }

    static bool peelCast(CastKind k)
    {
        switch (k)
        {
        case CK_LValueToRValue:
        case CK_NoOp:
        case CK_ArrayToPointerDecay:
        case CK_FunctionToPointerDecay:
        case CK_DerivedToBase:
        case CK_UncheckedDerivedToBase:
        case CK_ConstructorConversion:
        case CK_UserDefinedConversion:
        case CK_NullToPointer:
        case CK_BuiltinFnToFnPtr:
        case CK_LValueBitCast:
        case CK_ToVoid: return true;
        default: return false;
        }
    }

    const Stmt* peel(const Stmt* s) const
    {
        for (;;)
        {
            if (!s)
                return s;
            if (auto* x = dyn_cast<ParenExpr>(s))
                s = x->getSubExpr();
            else if (auto* x = dyn_cast<ExprWithCleanups>(s))
                s = x->getSubExpr();
            else if (auto* x = dyn_cast<MaterializeTemporaryExpr>(s))
                s = x->getSubExpr();
            else if (auto* x = dyn_cast<CXXBindTemporaryExpr>(s))
                s = x->getSubExpr();
            else if (auto* x = dyn_cast<ConstantExpr>(s))
                s = x->getSubExpr();
            else if (auto* x = dyn_cast<SubstNonTypeTemplateParmExpr>(s))
                s = x->getReplacement();
            else if (auto* x = dyn_cast<CXXStdInitializerListExpr>(s))
                s = x->getSubExpr();
            else if (auto* x = dyn_cast<OpaqueValueExpr>(s))
            {
                if (x->getSourceExpr())
                    s = x->getSourceExpr();
                else
                    return s;
            }
            else if (auto* x = dyn_cast<ImplicitCastExpr>(s))
            {
                if (peelCast(x->getCastKind()))
                    s = x->getSubExpr();
                else
                    return s;
            }
            else
                return s;
        }
    }

    std::string paramKinds(const FunctionDecl* f)
    {
        std::string r;
        if (!f)
            return r;
        for (auto* p : f->parameters())
        {
            QualType t = p->getType();
            if (t->isRValueReferenceType())
                r.push_back('m');
            else if (t->isLValueReferenceType())
                r.push_back(t.getNonReferenceType().isConstQualified() ? 'c' : 'r');
            else if (t->isPointerType())
                r.push_back(t->getPointeeType().isConstQualified() ? 'q' : 'p');
            else
                r.push_back('v');
        }
        return r;
    }

    void calleeInfo(Object& o, const FunctionDecl* f)
    {
        if (!f)
        {
            o["fn"] = "?";
            return;
        }
        o["fn"]  = qn(f);
        o["key"] = fnKey(f);
        auto ta  = targsOf(f);
        if (!ta.empty())
            o["targs"] = std::move(ta);
        o["pk"] = paramKinds(f);
        if (f->isNoReturn())
            o["noret"] = true;
        if (auto* m = dyn_cast<CXXMethodDecl>(f))
        {
            o["cls"] = qn(m->getParent());
            if (m->isConst())
                o["cconst"] = true;
            if (m->isVirtual())
                o["virt"] = true;
            if (m->isStatic())
                o["static"] = true;
        }
        const FunctionDecl* def = nullptr;
        if (f->hasBody(def) && def && inRoots(fileOf(def->getLocation())))
            o["def"] = true;
    }

    int freshId(const Stmt* orig, const Stmt* inner)
    {
        int id = nextId++;
        // map every wrapper on the way from orig to inner
        const Stmt* s = orig;
        for (int guard = 0; s && guard < 64; ++guard)
        {
            ids.emplace(s, id);
            if (s == inner)
                break;
            const Stmt* n = nullptr;
            if (auto* x = dyn_cast<ParenExpr>(s))
                n = x->getSubExpr();
            else if (auto* x = dyn_cast<ExprWithCleanups>(s))
                n = x->getSubExpr();
            else if (auto* x = dyn_cast<MaterializeTemporaryExpr>(s))
                n = x->getSubExpr();
            else if (auto* x = dyn_cast<CXXBindTemporaryExpr>(s))
                n = x->getSubExpr();
            else if (auto* x = dyn_cast<ConstantExpr>(s))
                n = x->getSubExpr();
            else if (auto* x = dyn_cast<SubstNonTypeTemplateParmExpr>(s))
                n = x->getReplacement();
            else if (auto* x = dyn_cast<CXXStdInitializerListExpr>(s))
                n = x->getSubExpr();
            else if (auto* x = dyn_cast<OpaqueValueExpr>(s))
                n = x->getSourceExpr();
            else if (auto* x = dyn_cast<ImplicitCastExpr>(s))
                n = x->getSubExpr();
            s = n;
        }
        return id;
    }

    Value declNode(const Decl* d, int depth)
    {
        Object o;
        declIds[d] = nextId;
        o["i"] = nextId++;
        o["l"] = lineOf(d->getLocation());
        if (auto* v = dyn_cast<VarDecl>(d))
        {
            o["k"] = "var";
            o["n"] = v->getNameAsString();
            o["d"] = (int64_t)v->getID();
            o["t"] = ty(v->getType());
            if (v->isStaticLocal())
                o["staticlocal"] = true;
            if (v->getType()->isReferenceType())
                o["isref"] = v->getType().getNonReferenceType().isConstQualified() ? "c" : "r";
            if (auto* dd = dyn_cast<DecompositionDecl>(v))
            {
                Array bs;
                for (auto* b : dd->bindings())
                    bs.push_back(Object{{"n", b->getNameAsString()}, {"d", (int64_t)b->getID()}});
                o["bindings"] = std::move(bs);
            }
            Array c;
            if (v->getInit())
                c.push_back(node(v->getInit(), depth + 1));
            o["c"] = std::move(c);
        }
        else
        {
            o["k"]   = "decl";
            o["cls"] = d->getDeclKindName();
            if (auto* nd = dyn_cast<NamedDecl>(d))
                o["n"] = nd->getNameAsString();
        }
        return std::move(o);
    }

    Value node(const Stmt* orig, int depth = 0)
    {
        if (!orig)
            return nullptr;
        const Stmt* s = peel(orig);
        if (!s)
            return nullptr;
        Object o;
        int    id = freshId(orig, s);
        o["i"]    = id;
        o["l"]    = lineOf(s->getBeginLoc());
        Array c;
        auto  kids = [&](std::initializer_list<const Stmt*> l)
        {
            for (auto* x : l)
                c.push_back(node(x, depth + 1));
        };
        if (depth > 200)
        {
            o["k"] = "deep";
            return std::move(o);
        }
        if (auto* e = dyn_cast<Expr>(s))
            o["t"] = ty(e->getType());

        if (auto* x = dyn_cast<CompoundStmt>(s))
        {
            o["k"] = "block";
            for (auto* ch : x->body())
                c.push_back(node(ch, depth + 1));
        }
        else if (auto* x = dyn_cast<DeclStmt>(s))
        {
            o["k"] = "declstmt";
            for (auto* d : x->decls())
                c.push_back(declNode(d, depth + 1));
        }
        else if (auto* x = dyn_cast<IfStmt>(s))
        {
            o["k"] = "if";
            if (x->isConstexpr())
                o["constexpr"] = true;
            Array r;
            if (x->getInit())
            {
                r.push_back("init");
                c.push_back(node(x->getInit(), depth + 1));
            }
            if (x->getConditionVariableDeclStmt())
            {
                r.push_back("condvar");
                c.push_back(node(x->getConditionVariableDeclStmt(), depth + 1));
            }
            r.push_back("cond");
            c.push_back(node(x->getCond(), depth + 1));
            r.push_back("then");
            c.push_back(node(x->getThen(), depth + 1));
            if (x->getElse())
            {
                r.push_back("else");
                c.push_back(node(x->getElse(), depth + 1));
            }
            o["r"] = std::move(r);
        }
        else if (auto* x = dyn_cast<ForStmt>(s))
        {
            o["k"] = "for";
            Array r;
            if (x->getInit())
            {
                r.push_back("init");
                c.push_back(node(x->getInit(), depth + 1));
            }
            if (x->getCond())
            {
                r.push_back("cond");
                c.push_back(node(x->getCond(), depth + 1));
            }
            if (x->getInc())
            {
                r.push_back("inc");
                c.push_back(node(x->getInc(), depth + 1));
            }
            r.push_back("body");
            c.push_back(node(x->getBody(), depth + 1));
            o["r"] = std::move(r);
        }
        else if (auto* x = dyn_cast<WhileStmt>(s))
        {
            o["k"] = "while";
            o["r"] = Array{"cond", "body"};
            kids({x->getCond(), x->getBody()});
        }
        else if (auto* x = dyn_cast<DoStmt>(s))
        {
            o["k"] = "do";
            o["r"] = Array{"body", "cond"};
            kids({x->getBody(), x->getCond()});
        }
        else if (auto* x = dyn_cast<CXXForRangeStmt>(s))
        {
            o["k"] = "rangefor";
            o["r"] = Array{"var", "range", "body"};
            c.push_back(declNode(x->getLoopVariable(), depth + 1));
            c.push_back(node(x->getRangeInit(), depth + 1));
            c.push_back(node(x->getBody(), depth + 1));
            // map the synthesized statements so that CFG elements resolve
            for (const Stmt* syn : {(const Stmt*)x->getRangeStmt(), (const Stmt*)x->getBeginStmt(), (const Stmt*)x->getEndStmt(),
                                    (const Stmt*)x->getLoopVarStmt()})
                if (syn)
                    ids.emplace(syn, id);
            if (x->getCond())
                ids.emplace(x->getCond(), id);
            if (x->getInc())
                ids.emplace(x->getInc(), id);
        }
        else if (auto* x = dyn_cast<SwitchStmt>(s))
        {
            o["k"] = "switch";
            o["r"] = Array{"cond", "body"};
            kids({x->getCond(), x->getBody()});
        }
        else if (auto* x = dyn_cast<CaseStmt>(s))
        {
            o["k"] = "case";
            o["r"] = Array{"val", "sub"};
            kids({x->getLHS(), x->getSubStmt()});
        }
        else if (auto* x = dyn_cast<DefaultStmt>(s))
        {
            o["k"] = "default";
            kids({x->getSubStmt()});
        }
        else if (auto* x = dyn_cast<ReturnStmt>(s))
        {
            o["k"] = "return";
            if (x->getRetValue())
                kids({x->getRetValue()});
        }
        else if (isa<BreakStmt>(s))
            o["k"] = "break";
        else if (isa<ContinueStmt>(s))
            o["k"] = "continue";
        else if (isa<NullStmt>(s))
            o["k"] = "null";
        else if (auto* x = dyn_cast<CXXTryStmt>(s))
        {
            o["k"] = "try";
            c.push_back(node(x->getTryBlock(), depth + 1));
            for (unsigned i = 0; i < x->getNumHandlers(); ++i)
                c.push_back(node(x->getHandler(i), depth + 1));
        }
        else if (auto* x = dyn_cast<CXXCatchStmt>(s))
        {
            o["k"] = "catch";
            if (x->getExceptionDecl() == nullptr)
                o["all"] = true; // catch (...)
            else
                o["ct"] = x->getCaughtType().getCanonicalType().getAsString(PP);
            kids({x->getHandlerBlock()});
        }
        else if (auto* x = dyn_cast<CXXThrowExpr>(s))
        {
            o["k"] = "throw";
            if (x->getSubExpr())
                kids({x->getSubExpr()});
        }
        else if (auto* x = dyn_cast<IntegerLiteral>(s))
        {
            o["k"] = "int";
            o["v"] = (int64_t)x->getValue().getLimitedValue();
        }
        else if (auto* x = dyn_cast<FloatingLiteral>(s))
        {
            o["k"]   = "float";
            double dv = x->getValueAsApproximateDouble();
            o["v"]   = std::isfinite(dv) ? dv : 1e308;
        }
        else if (auto* x = dyn_cast<CXXBoolLiteralExpr>(s))
        {
            o["k"] = "bool";
            o["v"] = x->getValue();
        }
        else if (auto* x = dyn_cast<StringLiteral>(s))
        {
            o["k"] = "str";
            o["v"] = x->isAscii() ? x->getString().str() : std::string("<wide>");
        }
        else if (auto* x = dyn_cast<CharacterLiteral>(s))
        {
            o["k"] = "char";
            o["v"] = (int64_t)x->getValue();
        }
        else if (isa<CXXNullPtrLiteralExpr>(s))
            o["k"] = "nullptr";
        else if (isa<CXXThisExpr>(s))
            o["k"] = "this";
        else if (auto* x = dyn_cast<DeclRefExpr>(s))
        {
            o["k"]       = "ref";
            auto* d      = x->getDecl();
            o["d"]       = (int64_t)d->getID();
            bool local   = false;
            if (auto* v = dyn_cast<VarDecl>(d))
            {
                local   = v->isLocalVarDeclOrParm() && !v->isStaticLocal();
                o["dk"] = isa<ParmVarDecl>(v) ? "parm" : (local ? "var" : "gvar");
                if (!local && v->getType().isConstQualified() && v->getInit() && !v->getInit()->isValueDependent())
                {
                    Expr::EvalResult r;
                    if (v->getType()->isIntegralOrEnumerationType() && v->getInit()->EvaluateAsInt(r, C))
                        o["cv"] = (int64_t)r.Val.getInt().getExtValue();
                    else if (v->getType()->isFloatingType() && v->getInit()->EvaluateAsRValue(r, C) && r.Val.isFloat())
                    {
                        double dv = r.Val.getFloat().convertToDouble();
                        if (std::isfinite(dv))
                            o["cv"] = dv;
                        else
                            o["cvs"] = std::isnan(dv) ? "nan" : (dv > 0 ? "inf" : "-inf");
                    }
                }
            }
            else if (auto* ec = dyn_cast<EnumConstantDecl>(d))
            {
                o["dk"] = "enum";
                o["cv"] = (int64_t)ec->getInitVal().getExtValue();
            }
            else if (auto* b = dyn_cast<BindingDecl>(d))
            {
                o["dk"] = "bind";
                local   = true;
                if (auto* dd = dyn_cast_or_null<DecompositionDecl>(b->getDecomposedDecl()))
                {
                    o["dd"]  = (int64_t)dd->getID();
                    int idx = 0;
                    for (auto* bb : dd->bindings())
                    {
                        if (bb == b)
                            break;
                        ++idx;
                    }
                    o["bi"] = idx;
                }
            }
            else if (isa<FunctionDecl>(d))
            {
                o["dk"]  = "fn";
                o["key"] = fnKey(cast<FunctionDecl>(d));
            }
            else
                o["dk"] = d->getDeclKindName();
            o["n"] = local ? d->getNameAsString() : qn(d);
        }
        else if (auto* x = dyn_cast<MemberExpr>(s))
        {
            o["k"]  = "mem";
            auto* d = x->getMemberDecl();
            o["n"]  = d->getNameAsString();
            if (auto* fd = dyn_cast<FieldDecl>(d))
            {
                o["cls"] = qn(fd->getParent());
                o["fd"]  = true;
            }
            else if (auto* md = dyn_cast<CXXMethodDecl>(d))
                o["cls"] = qn(md->getParent());
            if (x->isArrow())
                o["arrow"] = true;
            kids({x->getBase()});
        }
        else if (auto* x = dyn_cast<UnaryOperator>(s))
        {
            o["k"]  = "un";
            o["op"] = UnaryOperator::getOpcodeStr(x->getOpcode()).str();
            if (x->isPostfix())
                o["post"] = true;
            kids({x->getSubExpr()});
        }
        else if (auto* x = dyn_cast<BinaryOperator>(s))
        {
            o["k"]  = "bin";
            o["op"] = x->getOpcodeStr().str();
            {
                // source extents of the two operands (file offsets), for the robustness harness that swaps commutative operands
                auto lb = x->getLHS()->getBeginLoc(), le = x->getLHS()->getEndLoc();
                auto rb = x->getRHS()->getBeginLoc(), re = x->getRHS()->getEndLoc();
                if (lb.isValid() && le.isValid() && rb.isValid() && re.isValid() && !lb.isMacroID() && !le.isMacroID() && !rb.isMacroID() && !re.isMacroID())
                {
                    auto le2 = Lexer::getLocForEndOfToken(le, 0, SM, C.getLangOpts());
                    auto re2 = Lexer::getLocForEndOfToken(re, 0, SM, C.getLangOpts());
                    if (le2.isValid() && re2.isValid() && SM.getFileID(lb) == SM.getFileID(re2))
                    {
                        Array sp;
                        sp.push_back((int64_t)SM.getFileOffset(lb));
                        sp.push_back((int64_t)SM.getFileOffset(le2));
                        sp.push_back((int64_t)SM.getFileOffset(rb));
                        sp.push_back((int64_t)SM.getFileOffset(re2));
                        o["span"] = std::move(sp);
                    }
                }
            }
            kids({x->getLHS(), x->getRHS()});
        }
        else if (auto* x = dyn_cast<ConditionalOperator>(s))
        {
            o["k"] = "cond";
            kids({x->getCond(), x->getTrueExpr(), x->getFalseExpr()});
        }
        else if (auto* x = dyn_cast<ArraySubscriptExpr>(s))
        {
            o["k"] = "idx";
            kids({x->getBase(), x->getIdx()});
        }
        else if (auto* x = dyn_cast<CXXOperatorCallExpr>(s))
        {
            o["k"]  = "call";
            o["ck"] = "op";
            o["op"] = getOperatorSpelling(x->getOperator());
            calleeInfo(o, dyn_cast_or_null<FunctionDecl>(x->getCalleeDecl()));
            if (isa_and_nonnull<CXXMethodDecl>(x->getCalleeDecl()))
                o["memop"] = true;
            for (auto* a : x->arguments())
                c.push_back(node(a, depth + 1));
        }
        else if (auto* x = dyn_cast<CXXMemberCallExpr>(s))
        {
            o["k"]  = "call";
            o["ck"] = "mem";
            calleeInfo(o, x->getMethodDecl());
            if (!x->getMethodDecl())
                o["fn"] = "?member";
            c.push_back(node(x->getImplicitObjectArgument(), depth + 1));
            for (auto* a : x->arguments())
                c.push_back(node(a, depth + 1));
        }
        else if (auto* x = dyn_cast<CallExpr>(s))
        {
            o["k"]   = "call";
            o["ck"]  = "fn";
            auto* fd = dyn_cast_or_null<FunctionDecl>(x->getCalleeDecl());
            calleeInfo(o, fd);
            if (!fd)
            {
                o["ck"] = "ind";
                c.push_back(node(x->getCallee(), depth + 1));
            }
            for (auto* a : x->arguments())
                c.push_back(node(a, depth + 1));
        }
        else if (auto* x = dyn_cast<CXXConstructExpr>(s))
        {
            o["k"]   = "construct";
            o["cls"] = qn(x->getConstructor()->getParent());
            o["key"] = fnKey(x->getConstructor());
            o["pk"]  = paramKinds(x->getConstructor());
            if (x->getConstructor()->isCopyOrMoveConstructor())
                o["copy"] = true;
            if (isa<CXXTemporaryObjectExpr>(x))
                o["temp"] = true;
            for (auto* a : x->arguments())
                c.push_back(node(a, depth + 1));
        }
        else if (auto* x = dyn_cast<InitListExpr>(s))
        {
            o["k"] = "initlist";
            for (auto* a : x->inits())
                c.push_back(node(a, depth + 1));
        }
        else if (auto* x = dyn_cast<LambdaExpr>(s))
        {
            o["k"]   = "lambda";
            o["key"] = fnKey(x->getCallOperator());
            o["lid"] = lambdaId(x->getLambdaClass());
            if (x->isGenericLambda())
                o["generic"] = true;
            Array caps;
            auto  ci = x->capture_init_begin();
            for (auto& cap : x->captures())
            {
                Object co;
                if (cap.capturesThis())
                    co["n"] = "this";
                else if (cap.capturesVariable())
                {
                    co["n"] = cap.getCapturedVar()->getNameAsString();
                    co["d"] = (int64_t)cap.getCapturedVar()->getID();
                }
                co["ref"] = cap.getCaptureKind() == LCK_ByRef;
                if (cap.isImplicit())
                    co["implicit"] = true;
                if (ci != x->capture_init_end() && *ci && cap.capturesVariable() && cap.getCapturedVar()->isInitCapture())
                {
                    co["init"] = true;
                    c.push_back(node(*ci, depth + 1)); // init-capture expression, evaluated where the lambda is created
                }
                caps.push_back(std::move(co));
                ++ci;
            }
            o["caps"] = std::move(caps);
        }
        else if (auto* x = dyn_cast<ExplicitCastExpr>(s))
        {
            o["k"]  = "cast";
            o["ck"] = x->getCastKindName();
            o["ex"] = true;
            kids({x->getSubExpr()});
        }
        else if (auto* x = dyn_cast<ImplicitCastExpr>(s))
        {
            o["k"]  = "cast";
            o["ck"] = x->getCastKindName();
            kids({x->getSubExpr()});
        }
        else if (auto* x = dyn_cast<CXXDefaultArgExpr>(s))
        {
            o["k"] = "defarg";
            kids({x->getExpr()});
        }
        else if (auto* x = dyn_cast<CXXDefaultInitExpr>(s))
        {
            o["k"] = "definit";
            kids({x->getExpr()});
        }
        else if (auto* x = dyn_cast<UnaryExprOrTypeTraitExpr>(s))
        {
            o["k"] = "traits";
            Expr::EvalResult r;
            if (!x->isValueDependent() && x->EvaluateAsInt(r, C))
                o["cv"] = (int64_t)r.Val.getInt().getExtValue();
        }
        else if (auto* x = dyn_cast<CXXNewExpr>(s))
        {
            o["k"] = "new";
            if (x->getInitializer())
                kids({x->getInitializer()});
        }
        else if (auto* x = dyn_cast<CXXDeleteExpr>(s))
        {
            o["k"] = "delete";
            kids({x->getArgument()});
        }
        else if (isa<CXXScalarValueInitExpr>(s) || isa<ImplicitValueInitExpr>(s))
            o["k"] = "zeroinit";
        else if (auto* x = dyn_cast<SizeOfPackExpr>(s))
        {
            o["k"] = "int";
            o["v"] = (int64_t)x->getPackLength();
        }
        else
        {
            o["k"]   = "other";
            o["cls"] = s->getStmtClassName();
            for (auto* ch : s->children())
                if (ch)
                    c.push_back(node(ch, depth + 1));
        }
        if (!c.empty())
            o["c"] = std::move(c);
        return std::move(o);
    }

    Value elemRef(const Stmt* s)
    {
        auto it = ids.find(s);
        if (it != ids.end())
            return (int64_t)it->second;
        const Stmt* p = peel(s);
        it            = ids.find(p);
        if (it != ids.end())
            return (int64_t)it->second;
        if (auto* ds = dyn_cast_or_null<DeclStmt>(p); ds && ds->isSingleDecl())
        {
            auto di = declIds.find(ds->getSingleDecl());
            if (di != declIds.end())
                return (int64_t)di->second;
        }
        if (auto* me = dyn_cast_or_null<MemberExpr>(p); me && isa<CXXMethodDecl>(me->getMemberDecl()))
            return nullptr; // callee of a member call: not a tree node
        if (auto* dr = dyn_cast_or_null<DeclRefExpr>(p); dr && isa<FunctionDecl>(dr->getDecl()))
            return nullptr; // callee of a call
        // synthesized statement: emit inline
        return Object{{"x", node(s)}};
    }

    Value emitCFG(const FunctionDecl* f)
    {
        CFG::BuildOptions bo;
        bo.AddImplicitDtors = true;
        bo.AddInitializers  = true;
        bo.setAllAlwaysAdd();
        auto cfg = CFG::buildCFG(f, f->getBody(), &C, bo);
        if (!cfg)
            return nullptr;
        Array blocks;
        for (auto* B : *cfg)
        {
            Array els;
            for (auto& E : *B)
            {
                if (auto S = E.getAs<CFGStmt>())
                {
                    Value r = elemRef(S->getStmt());
                    if (r.kind() == Value::Null)
                        continue;
                    if (auto n = r.getAsInteger())
                    {
                        // wrappers share the id of the node they wrap: keep the last occurrence
                        Array kept;
                        for (auto& old : els)
                        {
                            auto m = old.getAsInteger();
                            if (!(m && *m == *n))
                                kept.push_back(std::move(old));
                        }
                        els = std::move(kept);
                    }
                    els.push_back(std::move(r));
                }
                else if (auto D = E.getAs<CFGAutomaticObjDtor>())
                    els.push_back(Object{{"dtor", (int64_t)D->getVarDecl()->getID()},
                                         {"n", D->getVarDecl()->getNameAsString()},
                                         {"t", ty(D->getVarDecl()->getType())}});
                else if (auto I = E.getAs<CFGInitializer>())
                {
                    auto*  ci = I->getInitializer();
                    Object io;
                    if (ci->isAnyMemberInitializer())
                        io["init"] = ci->getAnyMember()->getNameAsString();
                    else if (ci->isBaseInitializer())
                        io["initbase"] = QualType(ci->getBaseClass(), 0).getCanonicalType().getAsString(PP);
                    else
                        io["init"] = "?delegating";
                    if (ci->getInit())
                        io["e"] = elemRef(ci->getInit());
                    if (!ci->isWritten())
                        io["implicit"] = true;
                    els.push_back(std::move(io));
                }
                else
                    els.push_back(Object{{"o", (int64_t)E.getKind()}});
            }
            Array succs;
            for (auto I = B->succ_begin(); I != B->succ_end(); ++I)
                succs.push_back(I->getReachableBlock() ? (int64_t)I->getReachableBlock()->getBlockID() : (int64_t)-1);
            Object b{{"id", (int64_t)B->getBlockID()}, {"el", std::move(els)}, {"succ", std::move(succs)}};
            if (const Stmt* t = B->getTerminatorStmt())
            {
                b["term"] = t->getStmtClassName();
                auto it   = ids.find(t);
                if (it != ids.end())
                    b["tid"] = (int64_t)it->second;
                if (const Expr* c = B->getLastCondition())
                    b["cond"] = elemRef(c);
            }
            if (B->hasNoReturnElement())
                b["noret"] = true;
            blocks.push_back(std::move(b));
        }
        return Object{{"entry", (int64_t)cfg->getEntry().getBlockID()},
                      {"exit", (int64_t)cfg->getExit().getBlockID()},
                      {"blocks", std::move(blocks)}};
    }

    Value emitFn(const FunctionDecl* f)
    {
        ids.clear();
        declIds.clear();
        nextId = 0;
        Object o;
        o["key"]  = fnKey(f);
        o["qn"]   = qn(f);
        o["name"] = f->getNameAsString();
        o["file"] = fileOf(f->getLocation());
        o["line"] = lineOf(f->getLocation());
        o["end"]  = lineOf(f->getEndLoc());
        o["ret"]  = ty(f->getReturnType());
        o["did"]  = (int64_t)f->getID();
        if (f->isTemplateInstantiation())
            o["inst"] = true;
        auto ta = targsOf(f);
        if (!ta.empty())
            o["targs"] = std::move(ta);
        if (f->isNoReturn())
            o["noret"] = true;
        Array params;
        for (auto* p : f->parameters())
            params.push_back(Object{{"n", p->getNameAsString()}, {"d", (int64_t)p->getID()}, {"t", ty(p->getType())}});
        o["params"] = std::move(params);
        o["pk"]     = paramKinds(f);
        if (auto* m = dyn_cast<CXXMethodDecl>(f))
        {
            o["cls"] = qn(m->getParent());
            if (m->isConst())
                o["const"] = true;
            if (m->isVirtual())
                o["virtual"] = true;
            if (m->isStatic())
                o["static"] = true;
            Array ov;
            for (auto* om : m->overridden_methods())
                ov.push_back(qn(om));
            if (!ov.empty())
                o["overrides"] = std::move(ov);
            if (m->getParent()->isLambda())
            {
                o["lambda"] = true;
                o["lid"]    = lambdaId(m->getParent());
            }
            if (isa<CXXConstructorDecl>(m))
                o["ctor"] = cast<CXXConstructorDecl>(m)->isCopyConstructor() ? "copy"
                            : cast<CXXConstructorDecl>(m)->isMoveConstructor() ? "move"
                                                                                : "other";
            if (isa<CXXDestructorDecl>(m))
                o["dtor"] = true;
            if (m->isCopyAssignmentOperator())
                o["copyassign"] = true;
        }
        for (const DeclContext* dc = f->getParent(); dc; dc = dc->getParent())
            if (auto* pf = dyn_cast<FunctionDecl>(dc))
            {
                o["parent"] = fnKey(pf);
                break;
            }
        if (auto* cd = dyn_cast<CXXConstructorDecl>(f))
        {
            Array inits;
            for (auto* ci : cd->inits())
            {
                Object io;
                io["i"] = nextId++;
                io["k"] = "init";
                io["l"] = lineOf(ci->getSourceLocation());
                if (ci->isAnyMemberInitializer())
                    io["n"] = ci->getAnyMember()->getNameAsString();
                else if (ci->isBaseInitializer())
                    io["base"] = QualType(ci->getBaseClass(), 0).getCanonicalType().getAsString(PP);
                else
                    io["n"] = "?delegating";
                if (!ci->isWritten())
                    io["implicit"] = true;
                Array c;
                if (ci->getInit())
                    c.push_back(node(ci->getInit(), 1));
                io["c"] = std::move(c);
                inits.push_back(std::move(io));
            }
            o["inits"] = std::move(inits);
        }
        o["body"] = node(f->getBody());
        o["cfg"]  = emitCFG(f);
        o["nn"]   = nextId;
        return std::move(o);
    }
};

class Visitor : public RecursiveASTVisitor<Visitor>
{
public:
    Visitor(ASTContext& c)
        : E(c)
    {
    }
    bool shouldVisitTemplateInstantiations() const { return true; }
    bool shouldVisitLambdaBody() const { return true; }
    bool shouldVisitImplicitCode() const { return false; }

    bool VisitLambdaExpr(LambdaExpr* l)
    {
        auto* m = l->getCallOperator();
        if (!m)
            return true;
        if (auto* ft = m->getDescribedFunctionTemplate())
        {
            for (auto* spec : ft->specializations())
                if (visitedSpecs.insert(spec).second)
                    TraverseDecl(spec); // emits the instantiation and descends into nested (generic) lambdas
            return true;
        }
        VisitFunctionDecl(m);
        return true;
    }

    bool VisitFunctionDecl(FunctionDecl* f)
    {
        if (!f->doesThisDeclarationHaveABody() || f->isDependentContext())
            return true;
        if (!E.wanted(f->getLocation()))
            return true;
        if (!f->getBody())
            return true;
        auto key = E.fnKey(f);
        if (!seenFn.insert(key + "@" + E.fileOf(f->getLocation()) + ":" + std::to_string(E.lineOf(f->getLocation()))).second)
            return true;
        functions.push_back(E.emitFn(f));
        return true;
    }

    bool VisitCXXRecordDecl(CXXRecordDecl* r)
    {
        if (!r->isThisDeclarationADefinition() || r->isLambda() || r->isDependentContext())
            return true;
        if (!E.inRoots(E.fileOf(r->getLocation())))
            return true;
        auto key = E.diagName(r);
        if (!seenCls.insert(key).second)
            return true;
        Array fields, bases, methods, svars;
        for (auto* fd : r->fields())
            fields.push_back(Object{{"n", fd->getNameAsString()},
                                    {"t", E.ty(fd->getType())},
                                    {"mutable", fd->isMutable()},
                                    {"l", E.lineOf(fd->getLocation())},
                                    {"hasinit", fd->hasInClassInitializer()}});
        for (auto& b : r->bases())
            bases.push_back(b.getType().getCanonicalType().getAsString(E.PP));
        for (auto* d : r->decls())
            if (auto* v = dyn_cast<VarDecl>(d))
                svars.push_back(Object{{"n", v->getNameAsString()}, {"t", E.ty(v->getType())}, {"const", v->getType().isConstQualified()}});
        for (auto* m : r->methods())
        {
            if (m->isImplicit())
                continue;
            Object mo{{"n", m->getNameAsString()}, {"key", E.fnKey(m)},       {"const", m->isConst()},
                      {"virtual", m->isVirtual()}, {"pure", m->isPure()},     {"user", m->isUserProvided()},
                      {"deleted", m->isDeleted()}, {"defaulted", m->isDefaulted()}, {"l", E.lineOf(m->getLocation())}};
            if (isa<CXXConstructorDecl>(m))
                mo["ctor"] = cast<CXXConstructorDecl>(m)->isCopyConstructor()   ? "copy"
                             : cast<CXXConstructorDecl>(m)->isMoveConstructor() ? "move"
                                                                                 : "other";
            if (m->size_overridden_methods() > 0)
                mo["override"] = true;
            methods.push_back(std::move(mo));
        }
        classes.push_back(Object{{"qn", E.qn(r)},
                                 {"key", key},
                                 {"file", E.fileOf(r->getLocation())},
                                 {"line", E.lineOf(r->getLocation())},
                                 {"abstract", r->isAbstract()},
                                 {"fields", std::move(fields)},
                                 {"bases", std::move(bases)},
                                 {"svars", std::move(svars)},
                                 {"methods", std::move(methods)},
                                 {"inst", isa<ClassTemplateSpecializationDecl>(r)}});
        return true;
    }

    bool VisitEnumDecl(EnumDecl* e)
    {
        if (!e->isThisDeclarationADefinition() || !E.inRoots(E.fileOf(e->getLocation())))
            return true;
        Array vals;
        for (auto* c : e->enumerators())
            vals.push_back(Object{{"n", c->getNameAsString()}, {"v", (int64_t)c->getInitVal().getExtValue()}});
        enums.push_back(Object{{"qn", E.qn(e)}, {"file", E.fileOf(e->getLocation())}, {"line", E.lineOf(e->getLocation())}, {"vals", std::move(vals)}});
        return true;
    }

    bool VisitTypedefNameDecl(TypedefNameDecl* t)
    {
        if (!E.inRoots(E.fileOf(t->getLocation())) || t->getUnderlyingType()->isDependentType())
            return true;
        if (isa<FunctionDecl>(t->getDeclContext()))
            return true;
        aliases.push_back(Object{{"qn", E.qn(t)}, {"t", E.ty(t->getUnderlyingType())}, {"file", E.fileOf(t->getLocation())}, {"line", E.lineOf(t->getLocation())}});
        return true;
    }

    bool VisitVarDecl(VarDecl* v)
    {
        if (isa<ParmVarDecl>(v) || !E.inRoots(E.fileOf(v->getLocation())))
            return true;
        if (v->isLocalVarDecl() && !v->isStaticLocal())
            return true;
        if (v->getDeclContext()->isDependentContext())
            return true;
        Object o{{"qn", E.qn(v)},
                 {"t", E.ty(v->getType())},
                 {"file", E.fileOf(v->getLocation())},
                 {"line", E.lineOf(v->getLocation())},
                 {"const", v->getType().isConstQualified() || v->isConstexpr()},
                 {"staticlocal", v->isStaticLocal()},
                 {"threadlocal", v->getTLSKind() != VarDecl::TLS_None}};
        for (const DeclContext* dc = v->getDeclContext(); dc; dc = dc->getParent())
            if (auto* pf = dyn_cast<FunctionDecl>(dc))
            {
                o["fn"] = E.fnKey(pf);
                break;
            }
        gvars.push_back(std::move(o));
        return true;
    }

    Emitter               E;
    std::set<std::string> seenFn, seenCls;
    std::set<const Decl*> visitedSpecs;
    Array                 functions, classes, enums, aliases, gvars;
};

class Consumer : public ASTConsumer
{
public:
    explicit Consumer(std::string in)
        : m_in(std::move(in))
    {
    }
    void HandleTranslationUnit(ASTContext& c) override
    {
        if (c.getDiagnostics().hasErrorOccurred())
        {
            llvm::errs() << "nanofacts: parse errors in " << m_in << "\n";
            failed = true;
        }
        Visitor v(c);
        v.TraverseDecl(c.getTranslationUnitDecl());
        Object root{{"tu", m_in},
                    {"version", 3},
                    {"errors", c.getDiagnostics().hasErrorOccurred()},
                    {"types", std::move(v.E.types)},
                    {"functions", std::move(v.functions)},
                    {"classes", std::move(v.classes)},
                    {"enums", std::move(v.enums)},
                    {"aliases", std::move(v.aliases)},
                    {"gvars", std::move(v.gvars)}};
        std::string name = m_in;
        for (auto& ch : name)
            if (ch == '/')
                ch = '@';
        std::error_code      ec;
        llvm::raw_fd_ostream os(OutDir.getValue() + "/" + name + ".json", ec);
        if (ec)
        {
            llvm::errs() << "nanofacts: cannot write output for " << m_in << ": " << ec.message() << "\n";
            failed = true;
            return;
        }
        os << Value(std::move(root)) << "\n";
    }
    static bool failed;

private:
    std::string m_in;
};
bool Consumer::failed = false;

class Action : public ASTFrontendAction
{
public:
    std::unique_ptr<ASTConsumer> CreateASTConsumer(CompilerInstance&, StringRef in) override
    {
        return std::make_unique<Consumer>(in.str());
    }
};
} // namespace

int main(int argc, const char** argv)
{
    auto op = CommonOptionsParser::create(argc, argv, Cat);
    if (!op)
    {
        llvm::errs() << op.takeError();
        return 2;
    }
    ClangTool tool(op->getCompilations(), op->getSourcePathList());
    int       rc = tool.run(newFrontendActionFactory<Action>().get());
    return (rc != 0 || Consumer::failed) ? 2 : 0;
}
