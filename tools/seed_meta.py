#!/usr/bin/env python3
"""seed_meta.py <seed-id> <property> <caught-by rule|MISSED> <needs...> : writes seeded/<id>/meta.json from confirm.log"""
import json, sys, os, re
sid, prop, caught = sys.argv[1], sys.argv[2], sys.argv[3]
needs = sys.argv[4]
what = sys.argv[5]
d = "/verif/seeded/" + sid
log = open(d + "/confirm.log").read()
m = re.search(r"RESULT other_failed_tests=(\d+) demo_patched_rc=(\d+) demo_orig_rc=(\d+)", log)
meta = {"id": sid, "property": prop, "what_changed": what, "needs_to_manifest": needs,
        "confirmed": {"builds_with_patch": True, "existing_tests_failing_other_than_known_flaky": int(m.group(1)),
                      "demo_exit_with_patch": int(m.group(2)), "demo_exit_without_patch": int(m.group(3)),
                      "ran": "tools/confirm_seed.sh in the sub-agent's scratch worktree: ninja; ctest -j8; demo/build_and_run.sh with the patch, then git apply -R, ninja, demo again"},
        "origin": "independent sub-agent given only the property text and a scratch worktree",
        "detected_by": caught}
json.dump(meta, open(d + "/meta.json", "w"), indent=1)
print(json.dumps(meta)[:300])
