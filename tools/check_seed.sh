#!/bin/bash
# check_seed.sh <seed-id> <Cxx> [tier]: run a check against a scratch copy of /repo with the seeded patch applied
# (never touches /repo itself, so it is safe while /repo is being built)
ID=$1; PID=$2; TIER=${3:-quick}
S=$(mktemp -d /tmp/nvseed_XXXX)
mkdir -p $S/repo $S/out
cp -r /repo/include /repo/src /repo/cmake /repo/CMakeLists.txt $S/repo/
( cd $S/repo && git init -q . && git apply /verif/seeded/$ID/patch.diff ) || { echo "patch does not apply"; rm -rf $S; exit 2; }
NANO_REPO=$S/repo NANO_OUT=$S/out /verif/check $PID --tier $TIER | cut -c1-420 | tail -${TAIL:-6}
RC=${PIPESTATUS[0]}
rm -rf $S
exit $RC
