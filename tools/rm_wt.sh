#!/bin/bash
# rm_wt.sh <worktree> <seed-id>: removes a seeding worktree only once confirm_seed.sh has written its RESULT line
WT=$1; ID=$2
if ! grep -q "^RESULT" /verif/seeded/$ID/confirm.log 2>/dev/null; then
  echo "refusing to remove $WT: seeded/$ID/confirm.log has no RESULT line yet" >&2; exit 1
fi
git -C /repo worktree remove --force $WT && echo "removed $WT"
