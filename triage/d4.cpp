#include <nano/dataset.h>
#include <nano/dataset/iterator.h>
#include <nano/generator/elemwise_identity.h>
#include <nano/linear/function.h>
#include <nano/loss.h>
#include <iostream>
using namespace nano;
class ds_t final : public datasource_t {
public:
  ds_t() : datasource_t("tri") {}
  rdatasource_t clone() const override { return std::make_unique<ds_t>(*this); }
  void do_load() override {
    features_t fs{feature_t{"x"}.scalar(feature_type::float64), feature_t{"y"}.scalar(feature_type::float64)};
    resize(4, fs, 1);
    for (tensor_size_t s = 0; s < 4; ++s) { set(s, 0, 0.0); set(s, 1, 0.0); }
  }
};
int main(){
  ds_t ds; ds.load();
  dataset_t dataset{ds, 1};
  dataset.add(std::make_unique<scalar_identity_generator_t>());
  auto it = flatten_iterator_t{dataset, arange(0, 4)};
  it.scaling(scaling_type::none);
  for (const char* id : {"mae", "mse"}) {
    const auto loss = loss_t::all().get(id);
    const auto f = linear::function_t{it, *loss, 0.0, 4.0};
    vector_t x(2), z(2), g(2);
    x(0) = 0.0; x(1) = 1.0;   // W=0, b=1
    z(0) = 0.0; z(1) = 2.0;   // W=0, b=2
    const auto fx = f.vgrad(x, g);
    const auto fz = f.vgrad(z);
    const auto mu = f.strong_convexity();
    const auto rhs = fx + g.dot(z - x) + 0.5 * mu * (z - x).squaredNorm();
    std::cout << id << ": convex=" << f.convex() << " mu=" << mu << " f(z)=" << fz << " f(x)+g.(z-x)+mu/2|z-x|^2=" << rhs << (fz + 1e-12 >= rhs ? " OK" : " VIOLATED") << "\n";
  }
}
