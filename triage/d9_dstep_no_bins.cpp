// triage: dstep-table fit on a sample subset in which one categorical feature has no value at all
#include <nano/dataset.h>
#include <nano/generator/elemwise_identity.h>
#include <nano/wlearner/table.h>
#include <nano/wlearner/criterion.h>
#include <iostream>
using namespace nano;
class ds_t final : public datasource_t {
public:
  ds_t() : datasource_t("tri") {}
  rdatasource_t clone() const override { return std::make_unique<ds_t>(*this); }
  void do_load() override {
    features_t fs{feature_t{"cat0"}.sclass(3), feature_t{"cat1"}.sclass(3), feature_t{"y"}.scalar(feature_type::float64)};
    resize(20, fs, 2U);
    for (tensor_size_t s = 0; s < 20; ++s) {
      set(s, 0, s % 3);
      if (s >= 10) set(s, 1, s % 3);   // cat1 is missing for the first 10 samples
      set(s, 2, 0.0);
    }
  }
};
int main(){
  ds_t ds; ds.load();
  dataset_t dataset{ds, 1};
  dataset.add<sclass_identity_generator_t>();
  const auto samples = arange(0, 10);   // the subset in which cat1 is never given
  tensor4d_t gradients(20, 1, 1, 1);
  for (tensor_size_t s = 0; s < 20; ++s) gradients(s, 0, 0, 0) = 1.0 + (s % 3);
  auto wl = dstep_table_wlearner_t{};
  wl.parameter("wlearner::criterion") = wlearner_criterion::rss;
  const auto score = wl.fit(dataset, samples, gradients);
  std::cout << "score=" << score << " feature=" << wl.feature() << "\n";
  return 0;
}
