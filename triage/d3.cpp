#include <nano/dataset.h>
#include <nano/dataset/stats.h>
#include <nano/generator/elemwise_identity.h>
#include <iostream>
#include <iomanip>
using namespace nano;
class ds_t final : public datasource_t {
public:
  ds_t() : datasource_t("tri") {}
  rdatasource_t clone() const override { return std::make_unique<ds_t>(*this); }
  void do_load() override {
    features_t fs{feature_t{"x"}.scalar(feature_type::float64), feature_t{"y"}.scalar(feature_type::float64)};
    resize(16, fs, 1);
    for (tensor_size_t s = 0; s < 16; ++s) { set(s, 0, -0.1560288166929056); set(s, 1, double(s)); }
  }
};
int main(){
  ds_t ds; ds.load();
  dataset_t dataset{ds, 1};
  dataset.add(std::make_unique<scalar_identity_generator_t>());
  const auto samples = arange(0, 16);
  const auto stats = scalar_stats_t::make_flatten_stats(dataset, samples);
  std::cout << std::setprecision(17) << "mean=" << stats.m_mean(0) << " stdev=" << stats.m_stdev(0) << " div_stdev=" << stats.m_div_stdev(0) << " mul_stdev=" << stats.m_mul_stdev(0) << "\n";
  tensor2d_t buf;
  auto values = dataset.flatten(samples, buf);
  tensor2d_t copy = values;
  stats.scale(scaling_type::standard, copy.tensor());
  std::cout << "scaled(0)=" << copy(0,0) << "\n";
  stats.upscale(scaling_type::standard, copy.tensor());
  std::cout << "upscaled(0)=" << copy(0,0) << " original=" << values(0,0) << "\n";
}
