#include <nano/solver.h>
#include <nano/function.h>
#include <iostream>
#include <sys/wait.h>
#include <unistd.h>
using namespace nano;
int main(){
  int crashed=0, runs=0;
  for (const auto& sid : {"rqb","fpba1","fpba2"}) for (int ms : {2,3,4,5}) {
    for (const auto& rfun : function_t::make({4, 4, convexity::yes, smoothness::no, 10})) {
      ++runs;
      pid_t pid = fork();
      if (pid == 0) {
        auto solver = solver_t::all().get(sid);
        solver->parameter(scat("solver::", sid, "::bundle::max_size")) = ms;
        vector_t x0 = make_random_vector<scalar_t>(rfun->size(), -1.0, 1.0, 7);
        const auto state = solver->minimize(*rfun, x0, make_null_logger());
        _exit(0);
      }
      int st=0; waitpid(pid,&st,0);
      if (!WIFEXITED(st) || WEXITSTATUS(st)!=0) { ++crashed; if (crashed<=8) std::cout << sid << " max_size=" << ms << " " << rfun->name() << " -> " << (WIFSIGNALED(st)? "signal "+std::to_string(WTERMSIG(st)) : "exit "+std::to_string(WEXITSTATUS(st))) << "\n"; }
    }
  }
  std::cout << "runs=" << runs << " crashed=" << crashed << "\n";
}
