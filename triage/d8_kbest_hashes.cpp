// triage: kbest-table stores hashes in score order, find() does a binary search
#include <nano/dataset.h>
#include <nano/generator/elemwise_identity.h>
#include <nano/wlearner/table.h>
#include <nano/wlearner/criterion.h>
#include <iostream>
using namespace nano;
class ds_t final : public datasource_t {
public:
  ds_t() : datasource_t("tri") {}
  rdatasource_t clone() const override { return std::make_unique<ds_t>(*this); }
  void do_load() override {
    features_t fs{feature_t{"cat"}.sclass(4), feature_t{"y"}.scalar(feature_type::float64)};
    resize(40, fs, 1U);
    for (tensor_size_t s = 0; s < 40; ++s) { set(s, 0, s % 4); set(s, 1, 0.0); }
  }
};
int main(){
  ds_t ds; ds.load();
  dataset_t dataset{ds, 1};
  dataset.add<sclass_identity_generator_t>();
  const auto samples = arange(0, 40);
  // residual gradients: class means m_c with magnitudes ordered 3 > 0 > 2 > 1 so that the score order differs from the hash order
  const double mean[4] = {2.0, 0.01, 1.0, 5.0};
  tensor4d_t gradients(40, 1, 1, 1);
  for (tensor_size_t s = 0; s < 40; ++s) gradients(s, 0, 0, 0) = mean[s % 4] + 1e-3 * ((s / 4) % 2 ? 1 : -1);
  auto wl = kbest_table_wlearner_t{};
  wl.parameter("wlearner::criterion") = wlearner_criterion::rss;
  const auto score = wl.fit(dataset, samples, gradients);
  std::cout << "score=" << score << " feature=" << wl.feature() << " hashes=" << wl.hashes().vector().transpose() << " tables=" << wl.tables().vector().transpose() << "\n";
  tensor4d_t outputs(40, 1, 1, 1); outputs.zero();
  wl.predict(dataset, samples, outputs.tensor());
  double rss = 0; int zero_pred = 0;
  for (tensor_size_t s = 0; s < 40; ++s) { const auto d = gradients(s,0,0,0) + outputs(s,0,0,0); rss += d*d; if (outputs(s,0,0,0) == 0.0) ++zero_pred; }
  std::cout << "rss(predictions)=" << rss << " reported=" << score << " zero predictions=" << zero_pred << "\n";
  for (int c = 0; c < 4; ++c) std::cout << "class " << c << " -> prediction " << outputs(c,0,0,0) << " (mean residual " << mean[c] << ")\n";
  return std::fabs(rss - score) > 1e-6 * (1 + score) ? 1 : 0;
}
