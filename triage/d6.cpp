#include <nano/solver.h>
#include <nano/function.h>
#include <iostream>
using namespace nano;
int main(){
  int bad=0, runs=0;
  for (const auto& sid : {"rqb","fpba1","fpba2"}) {
    for (const auto& rfun : function_t::make({1, 8, convexity::yes, smoothness::ignore, 10})) {
      const auto& fun = *rfun;
      for (int me = 10; me <= 150; ++me) {
        for (int trial = 0; trial < 3; ++trial) {
          auto solver = solver_t::all().get(sid);
          solver->parameter("solver::max_evals") = me;
          solver->parameter("solver::epsilon") = 1e-10;
          vector_t x0 = make_random_vector<scalar_t>(fun.size(), -1.0 - trial, 1.0 + trial, 42 + trial);
          const auto f0 = fun.vgrad(x0);
          if (!std::isfinite(f0)) continue;
          const auto state = solver->minimize(fun, x0, make_null_logger());
          ++runs;
          const auto fr = fun.vgrad(state.x());
          if (state.status() != solver_status::failed && (fr > f0 + 1e-12*(1+std::fabs(f0)) || std::fabs(fr - state.fx()) > 1e-9*(1+std::fabs(fr)))) {
            ++bad;
            if (bad <= 12) std::cout << sid << " " << fun.name() << " max_evals=" << me << " f0=" << f0 << " reported=" << state.fx() << " recomputed=" << fr << " status=" << static_cast<int>(state.status()) << "\n";
          }
        }
      }
    }
  }
  std::cout << "runs=" << runs << " bad=" << bad << "\n";
}
