#include <nano/core/histogram.h>
#include <iostream>
#include <vector>
using namespace nano;
int main(){
  std::vector<double> data{0.0,1.0,2.0,2.6,2.7,3.0,4.0};
  auto th = make_tensor<scalar_t>(make_dims(1), 2.5);
  auto h = histogram_t::make_from_thresholds(data.begin(), data.end(), th);
  std::cout << "counts=" << h.counts().vector().transpose() << "\n";
  for (double v : {2.4, 2.5, 2.6, 2.7, 2.99, 3.0, -0.5}) std::cout << "bin(" << v << ")=" << h.bin(v) << " expected=" << (v >= 2.5 ? 1 : 0) << "\n";
  std::vector<double> d2{-1.0,-0.5,0.0,0.5};
  auto th2 = make_tensor<scalar_t>(make_dims(1), -0.2);
  auto h2 = histogram_t::make_from_thresholds(d2.begin(), d2.end(), th2);
  std::cout << "counts2=" << h2.counts().vector().transpose() << " bin(-0.5)=" << h2.bin(-0.5) << " expected 0\n";
}
