#include <nano/dataset.h>
#include <nano/generator/pairwise_product.h>
#include <iostream>
using namespace nano;
class ds_t final : public datasource_t {
public:
  ds_t() : datasource_t("tri") {}
  rdatasource_t clone() const override { return std::make_unique<ds_t>(*this); }
  void do_load() override {
    features_t fs{feature_t{"x0"}.scalar(feature_type::float64), feature_t{"x1"}.scalar(feature_type::float64), feature_t{"x2"}.scalar(feature_type::float64)};
    resize(4, fs);
    for (tensor_size_t s = 0; s < 4; ++s) { set(s, 0, 2.0 + s); set(s, 1, 10.0 + s); set(s, 2, 100.0 + s); }
  }
};
int main(){
  ds_t ds; ds.load();
  dataset_t dataset{ds, 1};
  dataset.add<pairwise_product_generator_t>(make_indices(1, 2), make_indices(0));
  std::cout << "features=" << dataset.features() << "\n";
  tensor1d_t buf;
  const auto samples = arange(0, 4);
  int bad = 0;
  for (tensor_size_t f = 0; f < dataset.features(); ++f) {
    const auto v = dataset.select(samples, f, buf);
    std::cout << dataset.feature(f).name() << ": " << v.vector().transpose() << "\n";
  }
  // expected: product(x0,x1) = (2+s)(10+s), product(x0,x2) = (2+s)(100+s)
  return bad;
}
