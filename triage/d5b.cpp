#include <nano/solver/bundle.h>
#include <nano/function.h>
#include <nano/solver.h>
#include <iostream>
using namespace nano;
int main(){
  auto funs = function_t::make({4, 4, convexity::yes, smoothness::no, 100});
  for (const auto& rfun : funs) {
    if (rfun->name().find("mse+lasso") == std::string::npos) continue;
    auto solver = solver_t::all().get("fpba2");
    solver->parameter("solver::fpba2::bundle::max_size") = 10;
    vector_t x0 = make_random_vector<scalar_t>(rfun->size(), -1.0, 1.0, 7);
    std::cout << rfun->name() << std::endl;
    const auto state = solver->minimize(*rfun, x0, make_stdout_logger());
  }
}
