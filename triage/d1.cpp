#include <nano/dataset.h>
#include <nano/generator/elemwise_identity.h>
#include <iostream>
using namespace nano;
class ds_t final : public datasource_t {
public:
  ds_t() : datasource_t("tri") {}
  rdatasource_t clone() const override { return std::make_unique<ds_t>(*this); }
  void do_load() override {
    features_t fs{feature_t{"x"}.scalar(feature_type::float64), feature_t{"y"}.scalar(feature_type::float64)};
    resize(4, fs, 1);
    for (tensor_size_t s = 0; s < 4; ++s) { set(s, 0, 1.5 * double(s)); set(s, 1, double(s)); }
  }
};
int main(){
  ds_t ds; ds.load();
  dataset_t dataset{ds, 1};
  dataset.add(std::make_unique<scalar_identity_generator_t>());
  tensor2d_t buf;
  for (tensor_size_t idx : {3, 4, 5, -1}) {
    auto samples = make_indices(tensor_size_t{0}, idx);
    try { auto f = dataset.flatten(samples, buf); std::cout << "index " << idx << ": accepted, value read=" << f(1,0) << "\n"; }
    catch (const std::exception& e) { std::cout << "index " << idx << ": rejected\n"; }
  }
}
