// triage: predicting a fitted depth-2 decision tree on a sample subset that leaves one branch of the tree empty
// (also: any dataset view asked for an empty index list) - dataset_t::check(samples) takes min() / max() of an empty tensor
#include <nano/dataset.h>
#include <nano/generator/elemwise_identity.h>
#include <nano/wlearner/dtree.h>
#include <nano/wlearner/criterion.h>
#include <iostream>
using namespace nano;
class ds_t final : public datasource_t {
public:
  ds_t() : datasource_t("tri") {}
  rdatasource_t clone() const override { return std::make_unique<ds_t>(*this); }
  void do_load() override {
    features_t fs{feature_t{"x0"}.scalar(feature_type::float64), feature_t{"x1"}.scalar(feature_type::float64), feature_t{"y"}.scalar(feature_type::float64)};
    resize(40, fs, 2U);
    for (tensor_size_t s = 0; s < 40; ++s) {
      set(s, 0, static_cast<double>(s % 4));
      set(s, 1, static_cast<double>(s % 5));
      set(s, 2, 0.0);
    }
  }
};
int main(){
  ds_t ds; ds.load();
  dataset_t dataset{ds, 1};
  dataset.add<scalar_identity_generator_t>();
  const auto samples = arange(0, 40);
  tensor4d_t gradients(40, 1, 1, 1);
  for (tensor_size_t s = 0; s < 40; ++s) gradients(s, 0, 0, 0) = ((s % 4) < 2 ? -1.0 : +1.0) * (1.0 + (s % 5));
  auto wl = dtree_wlearner_t{};
  wl.parameter("wlearner::criterion") = wlearner_criterion::rss;
  wl.parameter("wlearner::dtree::max_depth") = 2;
  wl.parameter("wlearner::dtree::min_split") = 1;
  const auto score = wl.fit(dataset, samples, gradients);
  std::cout << "score=" << score << " nodes=" << wl.nodes().size() << "\n";
  // one sample: at the root it goes to one side, the other child receives an empty sample list
  indices_t one(1); one(0) = 3;
  const auto outputs = wl.predict(dataset, one);
  std::cout << "predicted " << outputs(0) << "\n";
  return 0;
}
